package interp

// Arbitrary decoded values ("the decoder is a nondeterministic stub").
//
// verifrt.Arbitrary(ptr, doc, format) stores into *ptr an arbitrary value of the pointee type, the
// way a JSON/TOML/YAML decoder could have produced it: strings of a few lengths with symbolic
// bytes, slices and maps of bounded size, nil or non-nil pointers, the handful of dynamic types a
// decoder puts into an `any`. The value is built LAZILY: a struct is a structure whose scalar
// leaves are fresh symbolic variables and whose string / slice / map / pointer / interface leaves
// are lazycells; a cell is materialised (with the case splits that needs) when the program first
// uses it, so fields the code never looks at cost nothing and recursive types unfold on demand.
//
// Every choice and variable is recorded as an input named after the document path; at a
// counterexample (or a sampled trace) the materialised part of the document is rendered as text
// of the format (render*), which the native replay feeds to the REAL decoder.

import (
	"fmt"
	"go/types"
	"reflect"
	"sort"
	"strconv"
	"strings"

	"golang.org/x/tools/go/ssa"
)

type docRec struct {
	name   string
	format string // json | toml | yaml | xml
	t      types.Type
	root   *value
	i      *interpreter
	// custom: for a value of a type that decodes itself through a callback (see runCustom): the
	// inner value its method asked the decoder for, keyed by the outer value's identity
	custom map[*value]customInner
	cells  []*value // keeps the outer cells of runCustom alive and findable
}

type customInner struct {
	t types.Type
	v *value
}

// hostFunc is a callable implemented by the engine (used as the `unmarshal func(any) error`
// argument of yaml.v2-style UnmarshalYAML methods).
type hostFunc struct {
	f func(args []value) value
}

// customMethod finds a self-decoding method of *t that the engine can drive:
//   - UnmarshalYAML(unmarshal func(any) error) error  -> kind "yaml-func"
//   - UnmarshalTOML(data any) error                    -> kind "toml-any"
func customMethod(i *interpreter, t types.Type) (*ssa.Function, string) {
	if _, ok := types.Unalias(t).(*types.Named); !ok {
		return nil, ""
	}
	pt := types.NewPointer(t)
	ms := i.prog.MethodSets.MethodSet(pt)
	for k := 0; k < ms.Len(); k++ {
		sel := ms.At(k)
		fn, _ := sel.Obj().(*types.Func)
		if fn == nil {
			continue
		}
		sig := fn.Type().(*types.Signature)
		if sig.Params().Len() != 1 || sig.Results().Len() != 1 {
			continue
		}
		switch fn.Name() {
		case "UnmarshalYAML":
			if _, isFunc := sig.Params().At(0).Type().Underlying().(*types.Signature); isFunc {
				return i.prog.MethodValue(sel), "yaml-func"
			}
		case "UnmarshalTOML":
			if it, isIface := sig.Params().At(0).Type().Underlying().(*types.Interface); isIface && it.NumMethods() == 0 {
				return i.prog.MethodValue(sel), "toml-any"
			}
		}
	}
	return nil, ""
}

// runCustom builds a value of a self-decoding type by running its real Unmarshal method on an
// arbitrary inner value. A decode error of the method prunes the path (the real decoder would
// reject the whole document: nothing of the extractor's own code runs on it).
func runCustom(fn *ssa.Function, kind string, t types.Type, path string, doc *docRec, depth int) value {
	cell := new(value)
	*cell = zero(t)
	var res value
	switch kind {
	case "yaml-func":
		cb := &hostFunc{f: func(args []value) value {
			it, _ := args[0].(iface)
			pt, ok := it.t.(*types.Pointer)
			target, ok2 := it.v.(*value)
			if !ok || !ok2 || target == nil {
				panic(pathAbort{"unsupported", "UnmarshalYAML callback with a non-pointer target"})
			}
			*target = arbitrary(pt.Elem(), path, doc, depth)
			if doc.custom == nil {
				doc.custom = map[*value]customInner{}
			}
			doc.custom[cell] = customInner{t: pt.Elem(), v: target}
			return iface{}
		}}
		res = call(doc.i, nil, 0, fn, []value{cell, cb})
	case "toml-any":
		inner := new(value)
		lc := &lazycell{t: anyType, path: path, doc: doc, depth: depth}
		*inner = lc.force()
		if doc.custom == nil {
			doc.custom = map[*value]customInner{}
		}
		doc.custom[cell] = customInner{t: anyType, v: inner}
		res = call(doc.i, nil, 0, fn, []value{cell, *inner})
	}
	if e, ok := res.(iface); ok && e.t != nil {
		panic(pathAbort{"pruned", "a self-decoding type rejected the document"})
	}
	ex.noteStub("arbitrary: " + t.String() + " decoded by its own " + fn.Name() + " on an arbitrary inner value")
	doc.cells = append(doc.cells, cell)
	return *cell
}

type lazycell struct {
	t     types.Type
	path  string
	doc   *docRec
	depth int
	done  bool
	val   value
}

type arbConfig struct {
	lens     []int
	maxSlice int
	maxMap   int
	maxDepth int
	// maxStrings bounds the number of non-empty strings materialised in one document (-1: no
	// bound); further strings are empty. Keeps independent string parsers from multiplying.
	maxStrings int
}

func arbCfg() arbConfig {
	c := arbConfig{lens: []int{0, 1, 3}, maxSlice: 2, maxMap: 1, maxDepth: 4, maxStrings: -1}
	p := ex.params
	if s, ok := p["arb_lens"]; ok && s != "" {
		c.lens = nil
		for _, f := range strings.Split(s, ",") {
			if n, err := strconv.Atoi(strings.TrimSpace(f)); err == nil && n >= 0 {
				c.lens = append(c.lens, n)
			}
		}
	}
	if s, ok := p["arb_slice"]; ok {
		if n, err := strconv.Atoi(s); err == nil {
			c.maxSlice = n
		}
	}
	if s, ok := p["arb_map"]; ok {
		if n, err := strconv.Atoi(s); err == nil {
			c.maxMap = n
		}
	}
	if s, ok := p["arb_strings"]; ok {
		if n, err := strconv.Atoi(s); err == nil {
			c.maxStrings = n
		}
	}
	if s, ok := p["arb_depth"]; ok {
		if n, err := strconv.Atoi(s); err == nil {
			c.maxDepth = n
		}
	}
	return c
}

// unlazy returns the materialised value of v if v is a lazy cell, else v.
func unlazy(v value) value {
	if lc, ok := v.(*lazycell); ok {
		return lc.force()
	}
	return v
}

// forceDeep materialises the lazy cells reachable from v without going through pointers, slices
// or maps (what == and map hashing look at). Containers are updated in place.
func forceDeep(v value) value {
	switch x := v.(type) {
	case *lazycell:
		return forceDeep(x.force())
	case structure:
		for i := range x {
			x[i] = forceDeep(x[i])
		}
	case array:
		for i := range x {
			x[i] = forceDeep(x[i])
		}
	case iface:
		x.v = forceDeep(x.v)
		return x
	}
	return v
}

var unmarshalMethods = []string{"UnmarshalJSON", "UnmarshalText", "UnmarshalYAML", "UnmarshalTOML", "UnmarshalXML"}

func hasCustomUnmarshal(t types.Type) string {
	if _, ok := types.Unalias(t).(*types.Named); !ok {
		return ""
	}
	ms := types.NewMethodSet(types.NewPointer(t))
	for _, m := range unmarshalMethods {
		for i := 0; i < ms.Len(); i++ {
			if ms.At(i).Obj().Name() == m {
				return m
			}
		}
	}
	return ""
}

// arbitrary returns an arbitrary (lazily built) value of type t.
func arbitrary(t types.Type, path string, doc *docRec, depth int) value {
	if m := hasCustomUnmarshal(t); m != "" {
		if fn, kind := customMethod(doc.i, t); fn != nil {
			return runCustom(fn, kind, t, path, doc, depth)
		}
		// a type that decodes itself: left at its zero value (stated in the evidence as a stub)
		ex.noteStub("arbitrary: " + t.String() + " has " + m + ", left zero")
		return zero(t)
	}
	switch u := t.Underlying().(type) {
	case *types.Struct:
		s := make(structure, u.NumFields())
		for i := range s {
			f := u.Field(i)
			if !f.Exported() || tagName(u.Tag(i), doc.format, f.Name()) == "-" || (doc.format == "xml" && (f.Name() == "XMLName" || xmlTagOf(u.Tag(i), f.Name()).skip)) {
				s[i] = zero(f.Type())
				continue
			}
			s[i] = arbitrary(f.Type(), path+"."+f.Name(), doc, depth)
		}
		return s
	case *types.Array:
		a := make(array, u.Len())
		for i := range a {
			a[i] = arbitrary(u.Elem(), fmt.Sprintf("%s[%d]", path, i), doc, depth)
		}
		return a
	case *types.Basic:
		switch {
		case u.Kind() == types.String:
			return &lazycell{t: t, path: path, doc: doc, depth: depth}
		case u.Kind() == types.Bool:
			v := ex.newVar(path, 0)
			ex.inputs = append(ex.inputs, inputRec{name: path, kind: "lz:bool", t: v})
			return symv{v, types.Bool}
		case u.Info()&types.IsInteger != 0:
			bits := int(intBits(u.Kind()))
			v := ex.newVar(path, bits)
			ex.inputs = append(ex.inputs, inputRec{name: path, kind: "lz:int", t: v})
			return symv{v, u.Kind()}
		default:
			return zero(t) // floats, complex: not modelled
		}
	case *types.Map, *types.Interface:
		if doc.format == "xml" {
			return zero(t)
		}
		return &lazycell{t: t, path: path, doc: doc, depth: depth}
	case *types.Pointer, *types.Slice:
		return &lazycell{t: t, path: path, doc: doc, depth: depth}
	}
	return zero(t)
}

func intBits(k types.BasicKind) int64 {
	switch k {
	case types.Int8, types.Uint8:
		return 8
	case types.Int16, types.Uint16:
		return 16
	case types.Int32, types.Uint32:
		return 32
	}
	return 64
}

func (lc *lazycell) choose(kind string, n int) int {
	c := ex.choice(n)
	ex.inputs = append(ex.inputs, inputRec{name: lc.path, kind: kind, c: uint64(c)})
	return c
}

func arbString(path string, n int) value {
	s := make(symstr, n)
	for i := range s {
		v := ex.newVar(path, 8)
		ex.inputs = append(ex.inputs, inputRec{name: fmt.Sprintf("%s#%d", path, i), kind: "lz:byte", t: v})
		// printable ASCII: what every text format can carry verbatim
		ex.assume(tand(mk("bvuge", 0, v, constBV(0x20, 8)), mk("bvule", 0, v, constBV(0x7e, 8))), "arbitrary string byte is printable ASCII")
		s[i] = symv{v, types.Uint8}
	}
	return normStr(s)
}

var anyType = types.NewInterfaceType(nil, nil).Complete()

// force materialises the cell.
func (lc *lazycell) force() value {
	if lc.done {
		return lc.val
	}
	cfg := arbCfg()
	deep := lc.depth >= cfg.maxDepth
	var v value
	switch u := lc.t.Underlying().(type) {
	case *types.Basic: // string
		n := 0
		if len(cfg.lens) > 0 && (cfg.maxStrings < 0 || ex.docStrings < cfg.maxStrings) {
			n = cfg.lens[lc.choose("lz:str", len(cfg.lens))]
		}
		if n > 0 {
			ex.docStrings++
		}
		v = arbString(lc.path, n)
	case *types.Pointer:
		if deep || lc.choose("lz:ptr", 2) == 0 {
			v = (*value)(nil)
		} else {
			cell := new(value)
			*cell = arbitrary(u.Elem(), lc.path+"*", lc.doc, lc.depth+1)
			v = cell
		}
	case *types.Slice:
		n := 0
		if !deep && cfg.maxSlice > 0 {
			n = lc.choose("lz:slice", cfg.maxSlice+1)
		}
		if b, ok := u.Elem().Underlying().(*types.Basic); ok && b.Kind() == types.Uint8 {
			// []byte / json.RawMessage: arbitrary printable bytes
			s := toSymstr(arbString(lc.path, n))
			v = []value(s)
			if n == 0 {
				v = []value(nil)
			}
			break
		}
		if n == 0 {
			v = []value(nil)
			break
		}
		s := make([]value, n)
		for i := range s {
			s[i] = arbitrary(u.Elem(), fmt.Sprintf("%s[%d]", lc.path, i), lc.doc, lc.depth+1)
		}
		v = s
	case *types.Map:
		kb, ok := u.Key().Underlying().(*types.Basic)
		n := 0
		if !deep && cfg.maxMap > 0 && ok && kb.Kind() == types.String {
			n = lc.choose("lz:map", cfg.maxMap+1)
		}
		if n == 0 {
			if lc.choose("lz:nilmap", 2) == 0 {
				v = (*omap)(nil)
			} else {
				v = makeMap(u.Key(), 0)
			}
			break
		}
		m := makeMap(u.Key(), 0).(*omap)
		for i := 0; i < n; i++ {
			kc := &lazycell{t: u.Key(), path: fmt.Sprintf("%s{%d}k", lc.path, i), doc: lc.doc, depth: lc.depth + 1}
			m.insert(kc.force(), arbitrary(u.Elem(), fmt.Sprintf("%s{%d}v", lc.path, i), lc.doc, lc.depth+1))
		}
		v = m
	case *types.Interface:
		if u.NumMethods() > 0 || deep {
			v = iface{}
			break
		}
		switch lc.choose("lz:any", 6) {
		case 0:
			v = iface{}
		case 1:
			sc := &lazycell{t: types.Typ[types.String], path: lc.path + "!", doc: lc.doc, depth: lc.depth + 1}
			v = iface{t: types.Typ[types.String], v: sc.force()}
		case 2:
			v = iface{t: types.Typ[types.Bool], v: true}
		case 3:
			switch lc.doc.format {
			case "toml":
				v = iface{t: types.Typ[types.Int64], v: int64(1)}
			case "yaml":
				v = iface{t: types.Typ[types.Int], v: int(1)}
			default:
				v = iface{t: types.Typ[types.Float64], v: float64(1)}
			}
		case 4:
			mt := types.NewMap(types.Typ[types.String], anyType)
			mc := &lazycell{t: mt, path: lc.path + "!", doc: lc.doc, depth: lc.depth + 1}
			v = iface{t: mt, v: mc.force()}
		case 5:
			st := types.NewSlice(anyType)
			sc := &lazycell{t: st, path: lc.path + "!", doc: lc.doc, depth: lc.depth + 1}
			v = iface{t: st, v: sc.force()}
		}
	default:
		v = zero(lc.t)
	}
	lc.val, lc.done = v, true
	return v
}

// ---------------------------------------------------------------------------------------------
// rendering

func tagName(tag, format, field string) string {
	st := reflect.StructTag(tag)
	if v, ok := st.Lookup(format); ok {
		name := strings.Split(v, ",")[0]
		if name == "-" && !strings.Contains(v, ",") {
			return "-"
		}
		if name != "" {
			return name
		}
	}
	if format == "yaml" {
		return strings.ToLower(field)
	}
	return field
}

func tagHas(tag, format, opt string) bool {
	v, ok := reflect.StructTag(tag).Lookup(format)
	if !ok {
		return false
	}
	for _, o := range strings.Split(v, ",")[1:] {
		if o == opt {
			return true
		}
	}
	return false
}

type renderer struct {
	m      map[string]uint64
	memo   map[int]uint64
	format string
	doc    *docRec
}

func (r *renderer) scalar(v value) (uint64, bool) {
	switch x := v.(type) {
	case symv:
		return evalTerm(x.t, r.m, r.memo), true
	case bool:
		if x {
			return 1, true
		}
		return 0, true
	case uint8:
		return uint64(x), true
	}
	return 0, false
}

func (r *renderer) str(v value) string {
	switch x := v.(type) {
	case string:
		return x
	case symstr:
		b := make([]byte, len(x))
		for i, e := range x {
			n, _ := r.scalar(e)
			b[i] = byte(n)
		}
		return string(b)
	case []value:
		return r.str(symstr(x))
	}
	return ""
}

func quote(s string) string {
	var sb strings.Builder
	sb.WriteByte('"')
	for i := 0; i < len(s); i++ {
		c := s[i]
		switch {
		case c == '"' || c == '\\':
			sb.WriteByte('\\')
			sb.WriteByte(c)
		case c < 0x20 || c > 0x7e:
			fmt.Fprintf(&sb, "\\u%04x", c)
		default:
			sb.WriteByte(c)
		}
	}
	sb.WriteByte('"')
	return sb.String()
}

// customOf finds the inner value recorded by runCustom for an outer value (matched by the identity
// of the outer structure's backing array, which in-place field stores preserve).
func (r *renderer) customOf(v value) (customInner, bool) {
	if r.doc == nil {
		return customInner{}, false
	}
	s, ok := v.(structure)
	if !ok || len(s) == 0 {
		return customInner{}, false
	}
	for cell, in := range r.doc.custom {
		if cs, ok := (*cell).(structure); ok && len(cs) > 0 && &cs[0] == &s[0] {
			return in, true
		}
	}
	return customInner{}, false
}

type kv struct{ k, v string }

// fields renders the materialised fields of a struct value (anonymous untagged structs flattened).
func (r *renderer) fields(t *types.Struct, s structure) []kv {
	var out []kv
	for i := 0; i < t.NumFields(); i++ {
		f := t.Field(i)
		if !f.Exported() {
			continue
		}
		name := tagName(t.Tag(i), r.format, f.Name())
		if name == "-" {
			continue
		}
		if st, ok := f.Type().Underlying().(*types.Struct); ok && f.Anonymous() {
			if _, tagged := reflect.StructTag(t.Tag(i)).Lookup(r.format); !tagged || tagHas(t.Tag(i), r.format, "inline") {
				if sub, ok := s[i].(structure); ok {
					out = append(out, r.fields(st, sub)...)
				}
				continue
			}
		}
		txt, ok := r.value(f.Type(), s[i])
		if !ok {
			continue
		}
		out = append(out, kv{name, txt})
	}
	return out
}

func (r *renderer) object(kvs []kv) string {
	var sb strings.Builder
	sb.WriteByte('{')
	for i, e := range kvs {
		if i > 0 {
			sb.WriteString(", ")
		}
		if r.format == "toml" {
			sb.WriteString(quote(e.k) + " = " + e.v)
		} else {
			sb.WriteString(quote(e.k) + ": " + e.v)
		}
	}
	sb.WriteByte('}')
	return sb.String()
}

// value renders v of static type t; ok=false means "leave the key out" (never materialised, or
// not expressible in the format).
func (r *renderer) value(t types.Type, v value) (string, bool) {
	if lc, isLazy := v.(*lazycell); isLazy {
		if !lc.done {
			return "", false
		}
		v = lc.val
	}
	if hasCustomUnmarshal(t) != "" {
		if in, ok := r.customOf(v); ok {
			return r.value(in.t, *in.v)
		}
		// a type that decodes itself was left at its zero value: render the document that most
		// plausibly decodes to it
		switch t.Underlying().(type) {
		case *types.Struct, *types.Map:
			return "{}", true
		case *types.Slice:
			return "[]", true
		case *types.Basic:
			if b := t.Underlying().(*types.Basic); b.Kind() == types.String {
				return `""`, true
			}
		}
		return "", false
	}
	null := "null"
	switch u := t.Underlying().(type) {
	case *types.Struct:
		s, ok := v.(structure)
		if !ok {
			return "", false
		}
		return r.object(r.fields(u, s)), true
	case *types.Basic:
		switch {
		case u.Kind() == types.String:
			return quote(r.str(v)), true
		case u.Kind() == types.Bool:
			n, ok := r.scalar(v)
			if !ok {
				return "", false
			}
			return strconv.FormatBool(n != 0), true
		case u.Info()&types.IsInteger != 0:
			n, ok := r.scalar(v)
			if !ok {
				if s := fmt.Sprint(v); s != "" {
					return s, true
				}
				return "", false
			}
			bits := intBits(u.Kind())
			if u.Info()&types.IsUnsigned != 0 {
				if bits < 64 {
					n &= 1<<uint(bits) - 1
				}
				return strconv.FormatUint(n, 10), true
			}
			x := int64(n)
			if bits < 64 {
				x = int64(n<<uint(64-bits)) >> uint(64-bits)
			}
			return strconv.FormatInt(x, 10), true
		case u.Info()&types.IsFloat != 0:
			return fmt.Sprint(v), true
		}
		return "", false
	case *types.Pointer:
		p, _ := v.(*value)
		if p == nil {
			if r.format == "toml" {
				return "", false
			}
			return null, true
		}
		return r.value(u.Elem(), *p)
	case *types.Slice:
		s, _ := v.([]value)
		if b, ok := u.Elem().Underlying().(*types.Basic); ok && b.Kind() == types.Uint8 {
			// raw bytes: rendered as they are (json.RawMessage); may not be valid
			if len(s) == 0 {
				return "", false
			}
			return r.str(s), true
		}
		if s == nil && r.format != "toml" {
			return null, true
		}
		var parts []string
		for _, e := range s {
			txt, ok := r.value(u.Elem(), e)
			if !ok {
				if r.format == "toml" {
					txt = "{}"
				} else {
					txt = null
				}
				if _, isStruct := u.Elem().Underlying().(*types.Struct); isStruct {
					txt = "{}"
				}
			}
			parts = append(parts, txt)
		}
		return "[" + strings.Join(parts, ", ") + "]", true
	case *types.Map:
		m, _ := v.(*omap)
		if m == nil {
			if r.format == "toml" {
				return "", false
			}
			return null, true
		}
		var kvs []kv
		for _, s := range m.liveSlots() {
			txt, ok := r.value(u.Elem(), m.vals[s])
			if !ok {
				if r.format == "toml" {
					continue
				}
				txt = null
			}
			kvs = append(kvs, kv{r.str(m.keys[s]), txt})
		}
		if r.format != "toml" {
			sort.SliceStable(kvs, func(i, j int) bool { return false })
		}
		return r.object(kvs), true
	case *types.Interface:
		x, _ := v.(iface)
		if x.t == nil {
			if r.format == "toml" {
				return "", false
			}
			return null, true
		}
		return r.value(x.t, x.v)
	}
	return "", false
}

// renderDoc renders the materialised part of doc under model m.
func renderDoc(d *docRec, m map[string]uint64) string {
	r := &renderer{m: m, memo: map[int]uint64{}, format: d.format, doc: d}
	root := *d.root
	if d.format == "toml" {
		// top level: key = value lines
		rt := d.t
		for {
			pt, isPtr := rt.Underlying().(*types.Pointer)
			if !isPtr {
				break
			}
			if lc, isLazy := root.(*lazycell); isLazy {
				if !lc.done {
					return ""
				}
				root = lc.val
			}
			p, _ := root.(*value)
			if p == nil {
				return ""
			}
			root, rt = *p, pt.Elem()
		}
		st, ok := rt.Underlying().(*types.Struct)
		s, ok2 := root.(structure)
		if !ok || !ok2 {
			return ""
		}
		var sb strings.Builder
		for _, e := range r.fields(st, s) {
			sb.WriteString(quote(e.k) + " = " + e.v + "\n")
		}
		return sb.String()
	}
	if d.format == "xml" {
		rt := d.t
		for {
			pt, isPtr := rt.Underlying().(*types.Pointer)
			if !isPtr {
				break
			}
			rv, ok := r.resolved(root)
			if !ok {
				return "<" + xmlRootName(pt.Elem()) + "></" + xmlRootName(pt.Elem()) + ">"
			}
			p, _ := rv.(*value)
			if p == nil {
				return "<" + xmlRootName(pt.Elem()) + "></" + xmlRootName(pt.Elem()) + ">"
			}
			root, rt = *p, pt.Elem()
		}
		name := xmlRootName(rt)
		if txt := r.xmlElems(name, rt, root); txt != "" {
			return txt
		}
		return "<" + name + "></" + name + ">"
	}
	txt, ok := r.value(d.t, root)
	if !ok {
		return "null"
	}
	return txt
}

func (e *explorer) docsUnder(m map[string]uint64) map[string]string {
	if len(e.docs) == 0 {
		return nil
	}
	out := map[string]string{}
	for _, d := range e.docs {
		out[d.name] = renderDoc(d, m)
	}
	return out
}

// ---------------------------------------------------------------------------------------------
// Decoding a harness-built document tree (verifrt.EncodeTree / DecodeTree): the harness describes
// a document as map[string]any / []any / string / int / bool / nil values (strings may carry
// symbolic bytes); natively it is marshalled to text and read by the real decoder, under the
// engine the decoder stub assigns the tree to the decode target by the struct tags.

func (e *explorer) registerTree(name, format string, tree value) {
	if e.trees == nil {
		e.trees = map[string]treeRec{}
	}
	e.trees[name] = treeRec{format: format, tree: tree}
}

type treeRec struct {
	format string
	tree   value
}

func lookupKey(m *omap, name, format string) (value, bool) {
	if v, ok := m.lookup(name); ok {
		return v, true
	}
	if format == "json" || format == "toml" {
		// both decoders fall back to a case-insensitive match
		for _, s := range m.liveSlots() {
			if k, ok := m.keys[s].(string); ok && strings.EqualFold(k, name) {
				return m.vals[s], true
			}
		}
	}
	return nil, false
}

// assignTree builds the value of type t that decoding tree would produce.
func assignTree(t types.Type, tree value, format string) value {
	if it, ok := tree.(iface); ok {
		if it.t == nil {
			return zero(t)
		}
		if _, isAny := t.Underlying().(*types.Interface); isAny {
			return it
		}
		tree = it.v
	}
	if tree == nil {
		return zero(t)
	}
	if m := hasCustomUnmarshal(t); m != "" {
		panic(engineError{"DecodeTree: " + t.String() + " decodes itself (" + m + "); not modelled"})
	}
	switch u := t.Underlying().(type) {
	case *types.Struct:
		m, ok := tree.(*omap)
		if !ok {
			panic(engineError{"DecodeTree: object expected for " + t.String()})
		}
		s := make(structure, u.NumFields())
		for i := range s {
			f := u.Field(i)
			s[i] = zero(f.Type())
			if !f.Exported() {
				continue
			}
			name := tagName(u.Tag(i), format, f.Name())
			if name == "-" {
				continue
			}
			if _, isStruct := f.Type().Underlying().(*types.Struct); isStruct && f.Anonymous() {
				if _, tagged := reflect.StructTag(u.Tag(i)).Lookup(format); !tagged {
					s[i] = assignTree(f.Type(), m, format)
					continue
				}
			}
			if v, ok := lookupKey(m, name, format); ok {
				s[i] = assignTree(f.Type(), v, format)
			}
		}
		return s
	case *types.Slice:
		l, ok := tree.([]value)
		if !ok {
			panic(engineError{"DecodeTree: list expected for " + t.String()})
		}
		out := make([]value, len(l))
		for i := range l {
			out[i] = assignTree(u.Elem(), l[i], format)
		}
		return out
	case *types.Map:
		m, ok := tree.(*omap)
		if !ok {
			panic(engineError{"DecodeTree: object expected for " + t.String()})
		}
		out := makeMap(u.Key(), 0).(*omap)
		for _, s := range m.liveSlots() {
			out.insert(m.keys[s], assignTree(u.Elem(), m.vals[s], format))
		}
		return out
	case *types.Pointer:
		cell := new(value)
		*cell = assignTree(u.Elem(), tree, format)
		return cell
	case *types.Basic:
		switch {
		case u.Kind() == types.String:
			switch s := tree.(type) {
			case string, symstr:
				return s
			}
		case u.Kind() == types.Bool:
			if b, ok := tree.(bool); ok {
				return b
			}
			if sv, ok := tree.(symv); ok {
				return sv
			}
		case u.Info()&types.IsInteger != 0:
			var n int64
			switch x := tree.(type) {
			case int:
				n = int64(x)
			case int64:
				n = x
			case float64:
				n = int64(x)
			default:
				panic(engineError{"DecodeTree: number expected for " + t.String()})
			}
			return conv(t, types.Typ[types.Int64], n)
		case u.Info()&types.IsFloat != 0:
			switch x := tree.(type) {
			case float64:
				return conv(t, types.Typ[types.Float64], x)
			case int:
				return conv(t, types.Typ[types.Int], x)
			}
		}
		panic(engineError{fmt.Sprintf("DecodeTree: %T does not fit %s", tree, t)})
	case *types.Interface:
		return zero(t)
	}
	panic(engineError{"DecodeTree: unsupported target type " + t.String()})
}

// ---------------------------------------------------------------------------------------------
// XML rendering of arbitrary decoded values (encoding/xml struct tags: name, a>b paths, ",attr",
// ",chardata", "-"; an XMLName field's tag names the root element).

type xmlField struct {
	path     []string // element path (last = element/attribute name)
	attr     bool
	chardata bool
	skip     bool
}

func xmlTagOf(tag, field string) xmlField {
	v, ok := reflect.StructTag(tag).Lookup("xml")
	if !ok {
		return xmlField{path: []string{field}}
	}
	parts := strings.Split(v, ",")
	f := xmlField{}
	for _, o := range parts[1:] {
		switch o {
		case "attr":
			f.attr = true
		case "chardata", "cdata", "innerxml":
			f.chardata = true
		case "any", "comment":
			f.skip = true
		}
	}
	name := parts[0]
	if name == "-" {
		f.skip = true
	}
	if name == "" {
		name = field
	}
	// a namespace prefix "ns name" is not modelled
	if i := strings.LastIndex(name, " "); i >= 0 {
		name = name[i+1:]
	}
	f.path = strings.Split(name, ">")
	return f
}

func xmlEscape(s string) string {
	var sb strings.Builder
	for i := 0; i < len(s); i++ {
		switch c := s[i]; c {
		case '&':
			sb.WriteString("&amp;")
		case '<':
			sb.WriteString("&lt;")
		case '>':
			sb.WriteString("&gt;")
		case '"':
			sb.WriteString("&quot;")
		case '\'':
			sb.WriteString("&apos;")
		default:
			sb.WriteByte(c)
		}
	}
	return sb.String()
}

func (r *renderer) resolved(v value) (value, bool) {
	if lc, isLazy := v.(*lazycell); isLazy {
		if !lc.done {
			return nil, false
		}
		return lc.val, true
	}
	return v, true
}

// xmlText renders a scalar as character data; ok=false: never materialised.
func (r *renderer) xmlText(t types.Type, v value) (string, bool) {
	v, ok := r.resolved(v)
	if !ok {
		return "", false
	}
	if b, isBasic := t.Underlying().(*types.Basic); isBasic && b.Kind() == types.String {
		return xmlEscape(r.str(v)), true
	}
	saved := r.format
	r.format = "json"
	txt, ok := r.value(t, v)
	r.format = saved
	return txt, ok
}

// xmlElems renders value v of type t as zero or more elements called name.
func (r *renderer) xmlElems(name string, t types.Type, v value) string {
	v, ok := r.resolved(v)
	if !ok {
		return ""
	}
	switch u := t.Underlying().(type) {
	case *types.Struct:
		s, isStruct := v.(structure)
		if !isStruct {
			return ""
		}
		var attrs, body strings.Builder
		for i := 0; i < u.NumFields(); i++ {
			f := u.Field(i)
			if !f.Exported() || f.Name() == "XMLName" {
				continue
			}
			xf := xmlTagOf(u.Tag(i), f.Name())
			switch {
			case xf.skip:
			case xf.attr:
				if txt, ok := r.xmlText(f.Type(), s[i]); ok {
					attrs.WriteString(" " + xf.path[len(xf.path)-1] + `="` + txt + `"`)
				}
			case xf.chardata:
				if txt, ok := r.xmlText(f.Type(), s[i]); ok {
					body.WriteString(txt)
				}
			default:
				inner := r.xmlElems(xf.path[len(xf.path)-1], f.Type(), s[i])
				if inner == "" {
					continue
				}
				for k := len(xf.path) - 2; k >= 0; k-- {
					inner = "<" + xf.path[k] + ">" + inner + "</" + xf.path[k] + ">"
				}
				body.WriteString(inner)
			}
		}
		return "<" + name + attrs.String() + ">" + body.String() + "</" + name + ">"
	case *types.Slice:
		if b, isBasic := u.Elem().Underlying().(*types.Basic); isBasic && b.Kind() == types.Uint8 {
			return ""
		}
		l, _ := v.([]value)
		var sb strings.Builder
		for _, e := range l {
			one := r.xmlElems(name, u.Elem(), e)
			if one == "" {
				one = "<" + name + "></" + name + ">"
			}
			sb.WriteString(one)
		}
		return sb.String()
	case *types.Pointer:
		p, _ := v.(*value)
		if p == nil {
			return ""
		}
		return r.xmlElems(name, u.Elem(), *p)
	case *types.Basic:
		if txt, ok := r.xmlText(t, v); ok {
			return "<" + name + ">" + txt + "</" + name + ">"
		}
	}
	return ""
}

func xmlRootName(t types.Type) string {
	if st, ok := t.Underlying().(*types.Struct); ok {
		for i := 0; i < st.NumFields(); i++ {
			if st.Field(i).Name() == "XMLName" {
				if xf := xmlTagOf(st.Tag(i), ""); len(xf.path) > 0 && xf.path[0] != "" {
					return xf.path[len(xf.path)-1]
				}
			}
		}
	}
	if n, ok := types.Unalias(t).(*types.Named); ok {
		return n.Obj().Name()
	}
	return "root"
}
