package interp

// Harness intrinsics (package verifrt) and symbolic-aware replacements for
// functions of the standard library that have no Go body or rely on unsafe.

import (
	"fmt"
	"go/types"
	"strconv"
	"strings"

	"golang.org/x/tools/go/ssa"
)

// VerifrtPath is the import path of the harness runtime (injected by overlay).
const VerifrtPath = "github.com/google/osv-scalibr/internal/verifrt"

var theInterp *interpreter

func elemsOf(v value) []value {
	switch v := v.(type) {
	case string:
		return toSymstr(v)
	case symstr:
		return v
	case []value:
		return v
	}
	panic(fmt.Sprintf("elemsOf %T", v))
}

func init() {
	// remove native shortcuts so that the real stdlib code is interpreted
	for _, k := range []string{"strings.Count", "strings.EqualFold", "strings.Index", "strings.IndexByte", "strings.Replace", "strings.ToLower",
		"strconv.Atoi", "strconv.Itoa", "bytes.Equal", "bytes.IndexByte", "unicode/utf8.DecodeRuneInString", "sort.Ints", "sort.Strings", "sort.Float64s", "fmt.Sprint",
		"math.Abs", "math.Min"} {
		delete(externals, k)
	}
	indexByte := func(fr *frame, args []value) value {
		s := elemsOf(args[0])
		for i := range s {
			if ex.branch(byteEq(s[i], args[1])) {
				return i
			}
		}
		return -1
	}
	externals["internal/bytealg.IndexByteString"] = indexByte
	externals["internal/bytealg.IndexByte"] = indexByte
	lastIndexByte := func(fr *frame, args []value) value {
		s := elemsOf(args[0])
		for i := len(s) - 1; i >= 0; i-- {
			if ex.branch(byteEq(s[i], args[1])) {
				return i
			}
		}
		return -1
	}
	externals["internal/bytealg.LastIndexByteString"] = lastIndexByte
	externals["internal/bytealg.LastIndexByte"] = lastIndexByte
	count := func(fr *frame, args []value) value {
		s := elemsOf(args[0])
		n := 0
		for i := range s {
			if ex.branch(byteEq(s[i], args[1])) {
				n++
			}
		}
		return n
	}
	externals["internal/bytealg.CountString"] = count
	externals["internal/bytealg.Count"] = count
	index := func(fr *frame, args []value) value {
		a, b := elemsOf(args[0]), elemsOf(args[1])
		for i := 0; i+len(b) <= len(a); i++ {
			if ex.branch(strEqTerm(symstr(a[i:i+len(b)]), symstr(b))) {
				return i
			}
		}
		return -1
	}
	externals["internal/bytealg.IndexString"] = index
	externals["internal/bytealg.Index"] = index
	externals["internal/bytealg.Equal"] = func(fr *frame, args []value) value {
		return wrap(strEqTerm(symstr(elemsOf(args[0])), symstr(elemsOf(args[1]))), types.Bool)
	}
	cmpstr := func(fr *frame, args []value) value {
		a, b := symstr(elemsOf(args[0])), symstr(elemsOf(args[1]))
		if ex.branch(strLtTerm(a, b)) {
			return -1
		}
		if ex.branch(strEqTerm(a, b)) {
			return 0
		}
		return 1
	}
	externals["internal/bytealg.abigen_runtime_cmpstring"] = cmpstr
	externals["internal/bytealg.Compare"] = cmpstr
	externals["internal/bytealg.MakeNoZero"] = func(fr *frame, args []value) value {
		n := asInt64(args[0])
		b := make([]value, n)
		for i := range b {
			b[i] = uint8(0)
		}
		return b
	}
	externals["internal/bytealg.IndexRabinKarp[string]"] = index
	externals["internal/bytealg.IndexRabinKarp[[]byte]"] = index
	externals["internal/stringslite.Index"] = index
	externals["internal/stringslite.IndexByte"] = indexByte

	externals["(*strings.Builder).copyCheck"] = func(fr *frame, args []value) value { return nil }
	externals["(*strings.Builder).String"] = func(fr *frame, args []value) value {
		b := (*args[0].(*value)).(structure)
		buf, _ := b[1].([]value)
		return normStr(append(symstr{}, buf...))
	}
	externals["strings.Clone"] = func(fr *frame, args []value) value { return args[0] }
	externals["internal/stringslite.Clone"] = func(fr *frame, args []value) value { return args[0] }
	externals["unique.Make[string]"] = nil
	delete(externals, "unique.Make[string]")

	// sync.Pool: Get -> New() or nil; Put -> nop ("pool always empty")
	externals["(*sync.Pool).Get"] = func(fr *frame, args []value) value {
		p := (*args[0].(*value)).(structure)
		newfn := p[len(p)-1]
		switch f := newfn.(type) {
		case nil:
			return iface{}
		case *ssa.Function:
			if f == nil {
				return iface{}
			}
		case *closure:
			if f == nil {
				return iface{}
			}
		}
		return call(fr.i, fr, 0, newfn, nil)
	}
	externals["(*sync.Pool).Put"] = func(fr *frame, args []value) value { return nil }

	externals["errors.Is"] = func(fr *frame, args []value) value {
		return errIs(fr, args[0].(iface), args[1].(iface))
	}
}

func methodByName(fr *frame, t types.Type, name string) *ssa.Function {
	ms := fr.i.prog.MethodSets.MethodSet(t)
	for k := 0; k < ms.Len(); k++ {
		sel := ms.At(k)
		if sel.Obj().Name() == name {
			return fr.i.prog.MethodValue(sel)
		}
	}
	return nil
}

func errIs(fr *frame, err, target iface) bool {
	for {
		if err.t == nil {
			return target.t == nil
		}
		if target.t != nil && types.Comparable(target.t) && types.Identical(err.t, target.t) && equals(err.t, err.v, target.v) {
			return true
		}
		if m := methodByName(fr, err.t, "Is"); m != nil && m.Signature.Params().Len() == 1 {
			r := call(fr.i, fr, 0, m, []value{err.v, target})
			if sv, ok := r.(symv); ok {
				r = ex.branch(sv.t)
			}
			if r.(bool) {
				return true
			}
		}
		m := methodByName(fr, err.t, "Unwrap")
		if m == nil {
			return false
		}
		res := call(fr.i, fr, 0, m, []value{err.v})
		switch r := res.(type) {
		case iface:
			err = r
		case []value:
			for _, e := range r {
				if errIs(fr, e.(iface), target) {
					return true
				}
			}
			return false
		default:
			return false
		}
	}
}

func boolTerm(v value) *term {
	switch v := v.(type) {
	case bool:
		return constBool(v)
	case symv:
		return v.t
	}
	panic(fmt.Sprintf("boolTerm: %T", v))
}

func argString(v value) string {
	switch v := v.(type) {
	case string:
		return v
	case symstr:
		return concretizeStr(v)
	}
	panic(fmt.Sprintf("argString: %T", v))
}

// intrinsic implements the functions of package verifrt.
func intrinsic(fr *frame, fn *ssa.Function, args []value) (value, bool) {
	e := ex
	switch fn.Name() {
	case "Native":
		return false, true
	case "Byte":
		name := argString(args[0])
		t := e.newVar(name, 8)
		e.inputs = append(e.inputs, inputRec{name: name, kind: "byte", t: t})
		return symv{t, types.Uint8}, true
	case "Bool":
		name := argString(args[0])
		t := e.newVar(name, 0)
		e.inputs = append(e.inputs, inputRec{name: name, kind: "bool", t: t})
		return symv{t, types.Bool}, true
	case "Int":
		name := argString(args[0])
		t := e.newVar(name, 64)
		e.inputs = append(e.inputs, inputRec{name: name, kind: "int", t: t})
		return symv{t, types.Int}, true
	case "IntRange":
		name := argString(args[0])
		lo, hi := asInt64(args[1]), asInt64(args[2])
		t := e.newVar(name, 64)
		e.inputs = append(e.inputs, inputRec{name: name, kind: "int", t: t})
		e.assume(tand(mk("bvsge", 0, t, constBV(uint64(lo), 64)), mk("bvsle", 0, t, constBV(uint64(hi), 64))),
			fmt.Sprintf("%s in [%d,%d]", name, lo, hi))
		return wrap(t, types.Int), true
	case "Bytes", "String":
		name := argString(args[0])
		n := int(asInt64(args[1]))
		s := make([]value, n)
		for i := range s {
			t := e.newVar(name, 8)
			e.inputs = append(e.inputs, inputRec{name: name, kind: "byte", t: t})
			s[i] = symv{t, types.Uint8}
		}
		if fn.Name() == "Bytes" {
			return s, true
		}
		return normStr(symstr(s)), true
	case "Choice":
		name := argString(args[0])
		n := int(asInt64(args[1]))
		c := e.choice(n)
		e.inputs = append(e.inputs, inputRec{name: name, kind: "choice", c: uint64(c)})
		return c, true
	case "Arbitrary":
		// Arbitrary(ptr any, doc, format string): *ptr = an arbitrary decoded value (arbitrary.go)
		it, _ := args[0].(iface)
		pt, ok := it.t.(*types.Pointer)
		cell, ok2 := it.v.(*value)
		if !ok || !ok2 || cell == nil {
			panic(engineError{"verifrt.Arbitrary needs a non-nil pointer"})
		}
		d := &docRec{name: argString(args[1]), format: argString(args[2]), t: pt.Elem(), root: cell, i: fr.i}
		for _, o := range e.docs {
			if o.name == d.name {
				panic(engineError{"verifrt.Arbitrary: document " + d.name + " built twice"})
			}
		}
		e.docs = append(e.docs, d)
		if rp, isPtr := pt.Elem().Underlying().(*types.Pointer); isPtr && (d.format == "toml" || d.format == "xml") {
			// TOML and XML have no null: decoding into a nil pointer always allocates the value
			inner := new(value)
			*inner = arbitrary(rp.Elem(), d.name+"*", d, 0)
			*cell = inner
		} else {
			*cell = arbitrary(pt.Elem(), d.name, d, 0)
		}
		e.noteStub("decoder stub: arbitrary " + pt.Elem().String() + " (" + d.format + ")")
		return nil, true
	case "EncodeTree":
		// EncodeTree(doc string, tree any, format string) []byte: natively the marshalled text; here the
		// tree is kept for the decoder stub (DecodeTree) and a placeholder is returned
		e.registerTree(argString(args[0]), argString(args[2]), args[1])
		return []value{uint8('{'), uint8('}')}, true
	case "DecodeTree":
		// DecodeTree(ptr any, doc string): *ptr = the value decoding the registered tree produces
		it, _ := args[0].(iface)
		pt, ok := it.t.(*types.Pointer)
		cell, ok2 := it.v.(*value)
		if !ok || !ok2 || cell == nil {
			panic(engineError{"verifrt.DecodeTree needs a non-nil pointer"})
		}
		tr, ok := e.trees[argString(args[1])]
		if !ok {
			panic(engineError{"verifrt.DecodeTree: no tree registered as " + argString(args[1])})
		}
		*cell = assignTree(pt.Elem(), tr.tree, tr.format)
		e.noteStub("decoder stub: tree assigned to " + pt.Elem().String() + " (" + tr.format + ")")
		return nil, true
	case "Document":
		// natively the rendered document; here a placeholder (the decoder is stubbed)
		return []value{uint8('{'), uint8('}')}, true
	case "And":
		return wrap(tand(boolTerm(args[0]), boolTerm(args[1])), types.Bool), true
	case "Or":
		return wrap(tor(boolTerm(args[0]), boolTerm(args[1])), types.Bool), true
	case "Not":
		return wrap(tnot(boolTerm(args[0])), types.Bool), true
	case "Implies":
		return wrap(tor(tnot(boolTerm(args[0])), boolTerm(args[1])), types.Bool), true
	case "Iff":
		return wrap(teq(boolTerm(args[0]), boolTerm(args[1])), types.Bool), true
	case "Ite":
		return wrap(tite(boolTerm(args[0]), boolTerm(args[1]), boolTerm(args[2])), types.Bool), true
	case "IteInt":
		return wrap(tite(boolTerm(args[0]), toTerm(args[1]), toTerm(args[2])), types.Int), true
	case "IteByte":
		return wrap(tite(boolTerm(args[0]), toTerm(args[1]), toTerm(args[2])), types.Uint8), true
	case "B2I":
		return wrap(tite(boolTerm(args[0]), constBV(1, 64), constBV(0, 64)), types.Int), true
	case "StrEq":
		return wrap(strEqTerm(toSymstr(args[0]), toSymstr(args[1])), types.Bool), true
	case "Assume":
		e.assume(boolTerm(args[0]), callSite(fr))
		return nil, true
	case "Assert":
		e.assertProp(boolTerm(args[0]), argString(args[1]))
		return nil, true
	case "Fail":
		e.assertProp(constBool(false), argString(args[0]))
		return nil, true
	case "Reach":
		e.reach(argString(args[0]))
		return nil, true
	case "TagIf":
		e.tags = append(e.tags, tagRec{tag: argString(args[1]), cond: boolTerm(args[0])})
		return nil, true
	case "Tag":
		e.tags = append(e.tags, tagRec{tag: argString(args[0]), cond: constBool(true)})
		return nil, true
	case "ObserveInt":
		v := args[1]
		t := toTerm(v)
		e.obs = append(e.obs, obsRec{label: argString(args[0]), t: resize(t, 64, true), kind: "int"})
		return nil, true
	case "ObserveBool":
		e.obs = append(e.obs, obsRec{label: argString(args[0]), t: boolTerm(args[1]), kind: "bool"})
		return nil, true
	case "ObserveStr":
		e.obs = append(e.obs, obsRec{label: argString(args[0]), s: toSymstr(args[1]), isStr: true})
		return nil, true
	case "Param":
		name := argString(args[0])
		s, ok := e.params[name]
		if !ok {
			panic(engineError{"harness parameter not set: " + name})
		}
		n, err := strconv.Atoi(s)
		if err != nil {
			panic(engineError{"harness parameter " + name + " is not an integer: " + s})
		}
		return n, true
	case "ParamStr":
		name := argString(args[0])
		s, ok := e.params[name]
		if !ok {
			panic(engineError{"harness parameter not set: " + name})
		}
		return s, true
	case "Concretize":
		return concretizeValue(args[0]), true
	case "ConcretizeByte":
		return concretizeValue(args[0]), true
	case "ConcretizeStr":
		return concretizeStr(args[0]), true
	case "ExploreSchedules":
		sched.explore = args[0].(bool)
		if sched.explore {
			e.usedSched = true
		}
		return nil, true
	case "Yield":
		sched.yield()
		return nil, true
	case "ExploreMapOrder":
		e.mapOrder = args[0].(bool)
		return nil, true
	case "MayPanic":
		return mayPanic(fr, args[0]), true
	case "IsSymbolic":
		return hasSym(args[0]), true
	}
	return nil, false
}

func callSite(fr *frame) string {
	if fr.caller != nil && fr.caller.cur != nil {
		p := fr.i.prog.Fset.Position(fr.caller.cur.Pos())
		f := p.Filename
		if i := strings.LastIndex(f, "/"); i >= 0 {
			f = f[i+1:]
		}
		return fmt.Sprintf("%s:%d", f, p.Line)
	}
	return "?"
}

// mayPanic runs f and reports whether the target program panicked in it.
func mayPanic(fr *frame, f value) (panicked value) {
	panicked = false
	defer func() {
		if r := recover(); r != nil {
			switch r.(type) {
			case pathAbort, engineError:
				panic(r)
			}
			if _, isTarget := panicMessage(r); !isTarget {
				panic(r)
			}
			ex.panicOrigin = ""
			panicked = true
		}
	}()
	call(fr.i, fr, 0, f, nil)
	return
}
