package interp

// Path exploration by re-execution: a path is identified by its list of
// decisions; the executor replays a prefix and extends it, asking the solver
// only about branch nodes that were never decided before.

import (
	"fmt"
	"go/token"
	"os"
	"runtime"
	"sort"
	"strings"

	"golang.org/x/tools/go/ssa"
)

// pathAbort ends the current path without a verdict on the property.
type pathAbort struct {
	kind string // "pruned" (infeasible assumption), "unsupported", "budget", "unknown", "violated"
	why  string
}

// engineError is a failure of the machinery itself.
type engineError struct{ msg string }

// WorkItem identifies a path prefix together with a model of its path condition.
type WorkItem struct {
	Prefix []int64           `json:"p"`
	Model  map[string]uint64 `json:"m,omitempty"`
}

// InputVal is the value of one harness input under a model, in creation order.
type InputVal struct {
	Name string `json:"name"`
	Kind string `json:"kind"` // byte, bool, int, choice
	Val  uint64 `json:"val"`
}

// Violation is a failed obligation together with a witness.
type Violation struct {
	Label     string     `json:"label"`
	Kind      string     `json:"kind"` // assert | panic
	Site      string     `json:"site,omitempty"`
	Inputs    []InputVal `json:"inputs"`
	Decisions []int64    `json:"decisions,omitempty"`
	Tags      []string   `json:"tags,omitempty"`
	Known     string     `json:"known,omitempty"` // id of the known finding it is attributed to
	Sched     bool       `json:"schedule_dependent,omitempty"`
	// Docs: the documents built by verifrt.Arbitrary, rendered under the witness model
	Docs map[string]string `json:"docs,omitempty"`
}

// Trace is a completed path with a model, used for native differential replay.
type Trace struct {
	Inputs  []InputVal        `json:"inputs"`
	Observe []string          `json:"observe"`
	Outcome string            `json:"outcome"` // ok | assert:<label> | panic
	Docs    map[string]string `json:"docs,omitempty"`
}

// KnownFinding is an entry of known_findings.json.
type KnownFinding struct {
	ID       string `json:"id"`
	Property string `json:"property"`
	Entry    string `json:"entry,omitempty"` // harness entry ("" = any)
	Label    string `json:"label"`           // obligation label; prefix match if it ends with '*'
	Tag      string `json:"tag"`             // cause tag that must hold on the failing input
	What     string `json:"what"`
	Status   string `json:"status,omitempty"` // "" = open finding; "fixed" entries suppress nothing
}

// BatchResult aggregates what a worker found on a batch of paths.
type BatchResult struct {
	Paths         int               `json:"paths"`
	Decisions     int               `json:"decisions"`
	NewBranches   int               `json:"new_branches"`
	Obligations   int               `json:"obligations"`
	Discharged    int               `json:"discharged"`
	Pruned        int               `json:"pruned"`
	Inconclusive  map[string]int    `json:"inconclusive,omitempty"`
	Violations    []Violation       `json:"violations,omitempty"`
	Reached       map[string]int    `json:"reached,omitempty"`
	Assumes       map[string]int    `json:"assumes,omitempty"`
	Funcs         map[string]string `json:"funcs,omitempty"`
	Stubs         map[string]int    `json:"stubs,omitempty"`
	Traces        []Trace           `json:"traces,omitempty"`
	Work          []WorkItem        `json:"work,omitempty"`
	Instrs        int64             `json:"instrs"`
	Queries       int               `json:"queries"`
	QSat          int               `json:"q_sat"`
	QUnsat        int               `json:"q_unsat"`
	QUnknown      int               `json:"q_unknown"`
	SolverNs      int64             `json:"solver_ns"`
	CacheHits     int               `json:"cache_hits"`
	DomainDecided int               `json:"domain_decided"`
	GuardChecks   int               `json:"guard_checks"`
	MaxPathInstr  int64             `json:"max_path_instrs"`
}

type inputRec struct {
	name string
	kind string
	t    *term  // symbolic inputs
	c    uint64 // concrete (choice)
}

type tagRec struct {
	tag  string
	cond *term
}

type obsRec struct {
	label string
	t     *term  // scalar
	s     symstr // or string
	isStr bool
	kind  string
}

type explorer struct {
	slv             *solver
	prefix          []int64
	pos             int
	model           map[string]uint64
	memo            map[int]uint64
	known           map[int]bool
	dom             map[*term]*[4]uint64 // per 8-bit variable: values allowed by the single-variable constraints asserted so far
	tangle          map[*term]bool       // variables that occur in an asserted constraint over several variables
	solverDecided   int
	vars            []*term
	inputs          []inputRec
	docs            []*docRec
	docStrings      int
	trees           map[string]treeRec
	schedDeviations int
	varSeq          map[string]int
	tags            []tagRec
	obs             []obsRec
	work            []WorkItem

	instrs       int64
	instrBudget  int64
	depth        int
	panicOrigin  string
	entry        string
	knownFind    []KnownFinding
	params       map[string]string
	traceEvery   int // sample 1 path in traceEvery for differential replay (0 = none)
	mapOrder     bool
	pathOutcome  string
	res          *BatchResult
	seenFuncs    map[*ssa.Function]bool
	inInit       bool
	usedSched    bool
	reportedFunc map[*ssa.Function]bool
}

var ex *explorer

func (e *explorer) noteStub(name string) {
	if e == nil || e.res == nil {
		return
	}
	if e.res.Stubs == nil {
		e.res.Stubs = map[string]int{}
	}
	e.res.Stubs[name]++
}

func (e *explorer) incon(kind string) {
	if e.res.Inconclusive == nil {
		e.res.Inconclusive = map[string]int{}
	}
	e.res.Inconclusive[kind]++
}

func (e *explorer) newVar(name string, bits int) *term {
	e.varSeq[name]++
	// the width is part of the name: the same harness-given name may denote inputs of different
	// widths in different runs served by one worker (lazily built documents)
	nm := fmt.Sprintf("%s!%d", sanitize(name), e.varSeq[name])
	if bits != 8 {
		nm = fmt.Sprintf("%s_w%d", nm, bits)
	}
	t := mkVar("v_"+nm, bits)
	e.vars = append(e.vars, t)
	return t
}

func sanitize(s string) string {
	var sb strings.Builder
	for _, c := range s {
		if c >= 'a' && c <= 'z' || c >= 'A' && c <= 'Z' || c >= '0' && c <= '9' || c == '_' {
			sb.WriteRune(c)
		} else {
			sb.WriteByte('_')
		}
	}
	return sb.String()
}

func (e *explorer) eval(t *term) uint64 { return evalTerm(t, e.model, e.memo) }

func (e *explorer) setModel(m map[string]uint64) {
	e.model = m
	e.memo = map[int]uint64{}
}

func (e *explorer) learn(c *term, d bool) {
	e.known[c.id] = d
	e.known[tnot(c).id] = !d
	if d {
		// conjunction taken true: both conjuncts hold
		if c.op == "and" {
			e.learn(c.args[0], true)
			e.learn(c.args[1], true)
		}
	} else if c.op == "or" {
		e.learn(c.args[0], false)
		e.learn(c.args[1], false)
	}
}

func lit(c *term, d bool) *term {
	if d {
		return c
	}
	return tnot(c)
}

var fullDom = [4]uint64{^uint64(0), ^uint64(0), ^uint64(0), ^uint64(0)}

func domEmpty(d *[4]uint64) bool { return d[0]|d[1]|d[2]|d[3] == 0 }

func domFirst(d *[4]uint64) uint64 {
	for w := 0; w < 4; w++ {
		if d[w] != 0 {
			for b := 0; b < 64; b++ {
				if d[w]&(1<<uint(b)) != 0 {
					return uint64(w*64 + b)
				}
			}
		}
	}
	return 0
}

func (e *explorer) domOf(v *term) *[4]uint64 {
	d := e.dom[v]
	if d == nil {
		c := fullDom
		d = &c
		e.dom[v] = d
	}
	return d
}

// single returns the 8-bit variable c depends on exclusively, if any.
func single(c *term) *term {
	v, many := c.support()
	if many || v == nil || v.bits != 8 {
		return nil
	}
	return v
}

// note records the effect of asserting literal (c == d) on domains/entanglement.
func (e *explorer) note(c *term, d bool) {
	if v := single(c); v != nil {
		tt := c.truthTable()
		dom := e.domOf(v)
		for w := 0; w < 4; w++ {
			if d {
				dom[w] &= tt[w]
			} else {
				dom[w] &^= tt[w]
			}
		}
		return
	}
	e.entangle(c)
}

func (e *explorer) entangle(c *term) {
	seen := map[int]bool{}
	var walk func(t *term)
	walk = func(t *term) {
		if seen[t.id] {
			return
		}
		seen[t.id] = true
		if t.op == "var" {
			e.tangle[t] = true
			return
		}
		if v, many := t.support(); !many {
			if v != nil {
				e.tangle[v] = true
			}
			return
		}
		for _, a := range t.args {
			walk(a)
		}
	}
	walk(c)
}

// assertLit adds literal (c == d) to the path condition.
func (e *explorer) assertLit(c *term, d bool) {
	e.slv.assert(lit(c, d))
	e.note(c, d)
	e.learn(c, d)
}

// branch decides a symbolic condition, forking when both sides are feasible.
func (e *explorer) branch(c *term) bool {
	if c.isConst() {
		return c.val != 0
	}
	if v, ok := e.known[c.id]; ok {
		e.res.CacheHits++
		return v
	}
	if e.pos < len(e.prefix) {
		d := e.prefix[e.pos] != 0
		e.pos++
		e.assertLit(c, d)
		return d
	}
	e.res.NewBranches++
	d := e.eval(c) != 0
	otherFeasible := false
	var otherModel map[string]uint64
	decided := false
	if v := single(c); v != nil {
		// byte-domain pre-filter: exact when the variable is not entangled with others
		tt := c.truthTable()
		dom := e.domOf(v)
		var other [4]uint64
		for w := 0; w < 4; w++ {
			if d {
				other[w] = dom[w] &^ tt[w]
			} else {
				other[w] = dom[w] & tt[w]
			}
		}
		if domEmpty(&other) {
			decided = true // the other side is infeasible (domains over-approximate)
			e.res.DomainDecided++
		} else if !e.tangle[v] {
			decided = true
			otherFeasible = true
			e.res.DomainDecided++
			otherModel = make(map[string]uint64, len(e.model)+1)
			for k, x := range e.model {
				otherModel[k] = x
			}
			otherModel[v.name] = domFirst(&other)
		}
	}
	if !decided {
		e.solverDecided++
		res, m := e.slv.checkWith(lit(c, !d), e.vars, true)
		switch res {
		case "sat":
			otherFeasible = true
			otherModel = m
		case "unsat":
		default:
			e.incon("unknown-feasibility")
		}
	}
	if otherFeasible {
		other := make([]int64, len(e.prefix)+1)
		copy(other, e.prefix)
		other[len(e.prefix)] = int64(b2u(!d))
		e.work = append(e.work, WorkItem{Prefix: other, Model: otherModel})
	}
	e.assertLit(c, d)
	e.prefix = append(e.prefix, int64(b2u(d)))
	e.pos++
	return d
}

// choice returns a value in [0,n); every value is explored.
func (e *explorer) choice(n int) int {
	if n <= 0 {
		panic(pathAbort{"pruned", "choice over empty range"})
	}
	if n == 1 {
		return 0
	}
	if e.pos < len(e.prefix) {
		d := e.prefix[e.pos]
		e.pos++
		return int(d)
	}
	for k := n - 1; k >= 1; k-- {
		other := make([]int64, len(e.prefix)+1)
		copy(other, e.prefix)
		other[len(e.prefix)] = int64(k)
		e.work = append(e.work, WorkItem{Prefix: other, Model: e.model})
	}
	e.prefix = append(e.prefix, 0)
	e.pos++
	return 0
}

const concretizeCap = 300

// concretize case-splits over every feasible value of t.
func (e *explorer) concretize(t *term) uint64 {
	if t.isConst() {
		return t.val
	}
	if e.pos < len(e.prefix) {
		v := uint64(e.prefix[e.pos])
		e.pos++
		c := teq(t, constBV(v, t.bits))
		e.assertLit(c, true)
		return v
	}
	e.res.NewBranches++
	e.solverDecided++
	first := e.eval(t)
	e.slv.push()
	e.slv.assert(tnot(teq(t, constBV(first, t.bits))))
	n := 0
	for {
		res := e.slv.check()
		if res == "unknown" {
			e.incon("unknown-feasibility")
			break
		}
		if res != "sat" {
			break
		}
		m := e.slv.getValues(e.vars)
		v := evalTerm(t, m, map[int]uint64{})
		other := make([]int64, len(e.prefix)+1)
		copy(other, e.prefix)
		other[len(e.prefix)] = int64(v)
		e.work = append(e.work, WorkItem{Prefix: other, Model: m})
		e.slv.assert(tnot(teq(t, constBV(v, t.bits))))
		n++
		if n >= concretizeCap {
			e.incon("concretize-cap-exceeded")
			break
		}
	}
	e.slv.pop()
	c := teq(t, constBV(first, t.bits))
	e.assertLit(c, true)
	e.prefix = append(e.prefix, int64(first))
	e.pos++
	return first
}

func (e *explorer) assume(c *term, label string) {
	if e.res.Assumes == nil {
		e.res.Assumes = map[string]int{}
	}
	e.res.Assumes[label]++
	if c.isConst() {
		if c.val == 0 {
			panic(pathAbort{"pruned", "assume false"})
		}
		return
	}
	if v, ok := e.known[c.id]; ok {
		if !v {
			panic(pathAbort{"pruned", "assume contradicts path"})
		}
		return
	}
	e.assertLit(c, true)
	if e.eval(c) != 0 {
		return
	}
	e.solverDecided++
	switch e.slv.check() {
	case "sat":
		e.setModel(e.slv.getValues(e.vars))
	case "unsat":
		panic(pathAbort{"pruned", "assume infeasible"})
	default:
		panic(pathAbort{"unknown", "assume: solver unknown"})
	}
}

func (e *explorer) inputsUnder(m map[string]uint64) []InputVal {
	memo := map[int]uint64{}
	out := make([]InputVal, len(e.inputs))
	for i, in := range e.inputs {
		v := in.c
		if in.t != nil {
			v = evalTerm(in.t, m, memo)
		}
		out[i] = InputVal{Name: in.name, Kind: in.kind, Val: v}
	}
	return out
}

func (e *explorer) tagsUnder(m map[string]uint64) []string {
	memo := map[int]uint64{}
	var out []string
	seen := map[string]bool{}
	for _, t := range e.tags {
		if !seen[t.tag] && evalTerm(t.cond, m, memo) != 0 {
			seen[t.tag] = true
			out = append(out, t.tag)
		}
	}
	sort.Strings(out)
	return out
}

func labelMatches(pat, label string) bool {
	if strings.HasSuffix(pat, "*") {
		return strings.HasPrefix(label, strings.TrimSuffix(pat, "*"))
	}
	return pat == label
}

// fail records a failed obligation. bad is the condition (over the path
// condition) under which the obligation fails; m is a model of pc ∧ bad.
func (e *explorer) fail(kind, label, site string, bad *term, m map[string]uint64) {
	// Known-finding attribution: the failure is "known" only if no failing
	// input exists on this path outside the causes of the matching entries.
	var cause *term = constBool(false)
	var matched []KnownFinding
	for _, k := range e.knownFind {
		if k.Status == "fixed" || !labelMatches(k.Label, label) || (k.Entry != "" && k.Entry != e.entry) {
			continue
		}
		for _, t := range e.tags {
			if t.tag == k.Tag {
				cause = tor(cause, t.cond)
				matched = append(matched, k)
			}
		}
	}
	v := Violation{Label: label, Kind: kind, Site: site, Sched: e.usedSched}
	if len(matched) > 0 {
		res, m2 := e.slv.checkWith(tand(bad, tnot(cause)), e.vars, true)
		switch res {
		case "sat":
			m = m2 // a failing input that no known finding explains
		case "unsat":
			tags := e.tagsUnder(m)
			for _, k := range matched {
				for _, tg := range tags {
					if tg == k.Tag {
						v.Known = k.ID
					}
				}
			}
			if v.Known == "" {
				v.Known = matched[0].ID
			}
		default:
			e.incon("unknown-known-finding-split")
		}
	}
	v.Inputs = e.inputsUnder(m)
	v.Docs = e.docsUnder(m)
	v.Tags = e.tagsUnder(m)
	v.Decisions = append([]int64(nil), e.prefix[:e.pos]...)
	e.res.Violations = append(e.res.Violations, v)
	if e.pathOutcome == "ok" {
		e.pathOutcome = kind + ":" + label
	}
}

func (e *explorer) assertProp(c *term, label string) {
	e.res.Obligations++
	if c.isConst() {
		if c.val != 0 {
			e.res.Discharged++
			return
		}
		e.fail("assert", label, "", constBool(true), e.model)
		panic(pathAbort{"violated", label})
	}
	if v, ok := e.known[c.id]; ok && v {
		e.res.Discharged++
		return
	}
	e.solverDecided++
	res, m := e.slv.checkWith(tnot(c), e.vars, true)
	switch res {
	case "unsat":
		e.res.Discharged++
		e.learn(c, true)
		return
	case "sat":
		e.fail("assert", label, "", tnot(c), m)
		// continue on the inputs for which the obligation holds
		e.assertLit(c, true)
		if e.eval(c) == 0 {
			switch e.slv.check() {
			case "sat":
				e.setModel(e.slv.getValues(e.vars))
			default:
				panic(pathAbort{"violated", label})
			}
		}
	default:
		e.incon("unknown-assertion:" + label)
		e.assertLit(c, true)
		if e.eval(c) == 0 {
			panic(pathAbort{"unknown", "assertion unknown and model falsifies it"})
		}
	}
}

func (e *explorer) reach(label string) {
	if e.res.Reached == nil {
		e.res.Reached = map[string]int{}
	}
	e.res.Reached[label]++
}

// ---------------------------------------------------------------- running paths

// Worker runs harness entry fn on behalf of the coordinator.
type Worker struct {
	i     *interpreter
	fn    *ssa.Function
	pkg   *ssa.Package
	Entry string
}

func (w *Worker) Close() {
	if ex != nil && ex.slv != nil {
		ex.slv.close()
	}
}

// Options configure a worker's explorer.
type Options struct {
	Params      map[string]string
	Known       []KnownFinding
	InstrBudget int64
	TraceEvery  int
}

func (w *Worker) Configure(o Options) {
	ex = &explorer{slv: newSolver(), entry: w.Entry, params: o.Params, knownFind: o.Known,
		instrBudget: o.InstrBudget, traceEvery: o.TraceEvery,
		seenFuncs: map[*ssa.Function]bool{}, reportedFunc: map[*ssa.Function]bool{}}
	if ex.instrBudget == 0 {
		ex.instrBudget = 4_000_000
	}
}

func prefixHash(p []int64) uint64 {
	h := uint64(1469598103934665603)
	for _, d := range p {
		h ^= uint64(d) + 0x9e3779b97f4a7c15
		h *= 1099511628211
	}
	return h
}

// RunBatch explores item and up to maxPaths-1 of its descendants depth-first.
// Unexplored descendants are returned in BatchResult.Work.
func (w *Worker) RunBatch(item WorkItem, maxPaths int, seed uint64) (res *BatchResult) {
	res = &BatchResult{}
	ex.res = res
	q0, s0, u0, k0, ns0 := ex.slv.Queries, ex.slv.Sat, ex.slv.Unsat, ex.slv.Unknown+ex.slv.Errors, ex.slv.SolverNs
	stack := []WorkItem{item}
	for len(stack) > 0 && res.Paths < maxPaths {
		it := stack[len(stack)-1]
		stack = stack[:len(stack)-1]
		if len(intern) > 1_500_000 {
			// terms are per-path objects: the hash-consing table is only a cache and is dropped
			// between paths when it grows large (long thorough runs)
			intern = map[string]*term{}
			termSeq = 0
		}
		w.runPath(it, seed)
		stack = append(stack, ex.work...)
		ex.work = nil
	}
	res.Work = stack
	res.Queries = ex.slv.Queries - q0
	res.QSat = ex.slv.Sat - s0
	res.QUnsat = ex.slv.Unsat - u0
	res.QUnknown = ex.slv.Unknown + ex.slv.Errors - k0
	res.SolverNs = ex.slv.SolverNs - ns0
	// report newly entered functions
	for f := range ex.seenFuncs {
		if !ex.reportedFunc[f] {
			ex.reportedFunc[f] = true
			if res.Funcs == nil {
				res.Funcs = map[string]string{}
			}
			res.Funcs[f.String()] = w.i.prog.Fset.Position(f.Pos()).String()
		}
	}
	return res
}

func (w *Worker) runPath(it WorkItem, seed uint64) {
	e := ex
	e.prefix = it.Prefix
	e.pos = 0
	e.setModel(it.Model)
	if e.model == nil {
		e.setModel(map[string]uint64{})
	}
	e.known = map[int]bool{}
	e.dom = map[*term]*[4]uint64{}
	e.tangle = map[*term]bool{}
	e.solverDecided = 0
	e.vars = nil
	e.inputs = nil
	e.docs = nil
	e.docStrings = 0
	e.trees = nil
	e.schedDeviations = 0
	e.varSeq = map[string]int{}
	e.tags = nil
	e.obs = nil
	e.work = nil
	e.instrs = 0
	e.depth = 0
	e.panicOrigin = ""
	e.pathOutcome = "ok"
	e.mapOrder = false
	e.usedSched = false
	e.slv.push()
	w.i.resetPerPath()
	completed := false
	func() {
		defer func() {
			r := recover()
			if r == nil {
				completed = true
				return
			}
			switch r := r.(type) {
			case pathAbort:
				switch r.kind {
				case "pruned":
					e.res.Pruned++
				case "violated":
				case "budget":
					// possible non-termination: a violation candidate, confirmed natively under a watchdog
					e.res.Obligations++
					e.fail("hang", "termination: "+r.why, "", constBool(true), e.model)
				default:
					e.incon(r.kind + ": " + r.why)
				}
			case engineError:
				panic(r)
			default:
				msg, isTarget := panicMessage(r)
				if !isTarget {
					e.incon("unsupported: engine panic: " + msg + " @ " + e.panicOrigin)
					if os.Getenv("VERIF_DEBUG") != "" {
						buf := make([]byte, 1<<16)
						buf = buf[:runtime.Stack(buf, false)]
						fmt.Fprintf(os.Stderr, "engine panic: %s\n%s\n", msg, buf)
					}
					return
				}
				e.res.Obligations++
				label := "panic: " + normalizePanic(msg) + " @ " + e.panicOrigin
				e.fail("panic", label, e.panicOrigin, constBool(true), e.model)
			}
		}()
		call(w.i, nil, token.NoPos, w.fn, nil)
	}()
	if completed && e.pos < len(e.prefix) {
		panic(engineError{fmt.Sprintf("non-deterministic replay: prefix of %d decisions, only %d consumed", len(e.prefix), e.pos)})
	}
	if completed {
		// the implicit obligation of every harness: the path ends without an uncaught panic
		e.res.Obligations++
		e.res.Discharged++
		h := prefixHash(e.prefix) ^ seed
		// The path's own feasibility is re-checked by the solver (guards the local evaluator
		// and the byte-domain pre-filter): always when the solver took part in the path,
		// on a 1-in-8 sample of the paths decided by domains alone.
		if e.solverDecided > 0 || h%8 == 0 {
			e.res.GuardChecks++
			switch e.slv.check() {
			case "sat":
			case "unsat":
				panic(engineError{"explored path is infeasible: local evaluator/pre-filter and solver disagree"})
			default:
				e.incon("unknown-final-check")
			}
		}
		if e.traceEvery > 0 && (h>>3)%uint64(e.traceEvery) == 0 && len(e.res.Traces) < 8 {
			e.res.Traces = append(e.res.Traces, e.trace(e.model))
		}
	}
	e.slv.pop()
	e.res.Paths++
	e.res.Decisions += e.pos
	e.res.Instrs += e.instrs
	if e.instrs > e.res.MaxPathInstr {
		e.res.MaxPathInstr = e.instrs
	}
}

func (e *explorer) trace(m map[string]uint64) Trace {
	memo := map[int]uint64{}
	t := Trace{Inputs: e.inputsUnder(m), Outcome: e.pathOutcome, Docs: e.docsUnder(m)}
	for _, o := range e.obs {
		var s string
		if o.isStr {
			b := make([]byte, len(o.s))
			for i, x := range o.s {
				switch x := x.(type) {
				case uint8:
					b[i] = x
				case symv:
					b[i] = byte(evalTerm(x.t, m, memo))
				}
			}
			s = fmt.Sprintf("%s=%q", o.label, string(b))
		} else {
			v := evalTerm(o.t, m, memo)
			switch o.kind {
			case "bool":
				s = fmt.Sprintf("%s=%v", o.label, v != 0)
			default:
				s = fmt.Sprintf("%s=%d", o.label, int64(v))
			}
		}
		t.Observe = append(t.Observe, s)
	}
	return t
}

// panicMessage classifies a recovered panic value: target-program panic or engine failure.
func panicMessage(r interface{}) (string, bool) {
	switch r := r.(type) {
	case targetPanic:
		return "explicit: " + toStringShort(r.v), true
	case runtime.Error:
		msg := r.Error()
		if _, ok := r.(*runtime.TypeAssertionError); ok {
			return msg, false
		}
		if strings.Contains(msg, "interp.") {
			return msg, false
		}
		return msg, true
	case string:
		if strings.HasPrefix(r, "unexpected") || strings.HasPrefix(r, "no code for function") ||
			strings.HasPrefix(r, "symBinop") || strings.HasPrefix(r, "symConv") || strings.HasPrefix(r, "symUnop") ||
			strings.HasPrefix(r, "illegal") || strings.HasPrefix(r, "cannot") || strings.HasPrefix(r, "kindBits") ||
			strings.HasPrefix(r, "kindOfValue") || strings.HasPrefix(r, "asUint64Any") || strings.HasPrefix(r, "toSymstr") ||
			strings.HasPrefix(r, "unsupported") || strings.HasPrefix(r, "get: no value") || strings.Contains(r, "interp") ||
			strings.HasPrefix(r, "unknown built-in") || strings.Contains(r, "cannot convert") || strings.HasPrefix(r, "bad") || strings.HasPrefix(r, "reflect") {
			return r, false
		}
		return r, true
	case error:
		return r.Error(), false
	}
	return fmt.Sprintf("%T: %v", r, r), false
}

func toStringShort(v value) string {
	s := toString(v)
	if len(s) > 160 {
		s = s[:160] + "…"
	}
	return s
}

// normalizePanic removes input-dependent numbers from runtime messages so that one
// defect has one label.
func normalizePanic(msg string) string {
	var sb strings.Builder
	inNum := false
	for _, c := range msg {
		if c >= '0' && c <= '9' {
			if !inNum {
				sb.WriteByte('N')
				inNum = true
			}
			continue
		}
		inNum = false
		sb.WriteRune(c)
	}
	s := sb.String()
	if i := strings.Index(s, "\n"); i >= 0 {
		s = s[:i]
	}
	if len(s) > 120 {
		s = s[:120]
	}
	return s
}
