package interp

// sort.Slice / sort.SliceStable (the originals go through reflectlite.Swapper) and errors.As.

import (
	"go/types"
	"unsafe"
)

func init() {
	sortSlice := func(stable bool) externalFn {
		return func(fr *frame, args []value) value {
			x := args[0].(iface)
			s, _ := x.v.([]value)
			less := args[1]
			n := len(s)
			if n > 12 && !stable {
				ex.noteStub("sort.Slice on more than 12 elements modelled as a stable insertion sort (order of equal elements may differ from pdqsort)")
			}
			lessFn := func(i, j int) bool {
				r := call(fr.i, fr, 0, less, []value{i, j})
				if sv, ok := r.(symv); ok {
					return ex.branch(sv.t)
				}
				return r.(bool)
			}
			// insertion sort, as sort.insertionSort_func does for short slices
			for i := 1; i < n; i++ {
				for j := i; j > 0 && lessFn(j, j-1); j-- {
					s[j], s[j-1] = s[j-1], s[j]
				}
			}
			return nil
		}
	}
	externals["sort.Slice"] = sortSlice(false)
	externals["sort.SliceStable"] = sortSlice(true)

	// uuid.New: a fixed marker (randomness is not the subject of any property)
	fixedUUID := func(fr *frame, args []value) value {
		ex.noteStub("uuid.New returns a fixed UUID")
		a := make(array, 16)
		for k := range a {
			a[k] = uint8(0x5a)
		}
		return a
	}
	externals["github.com/google/uuid.New"] = fixedUUID
	externals["github.com/google/uuid.NewString"] = func(fr *frame, args []value) value {
		ex.noteStub("uuid.NewString returns a fixed UUID")
		return "5a5a5a5a-5a5a-5a5a-5a5a-5a5a5a5a5a5a"
	}

	externals["errors.As"] = func(fr *frame, args []value) value {
		err := args[0].(iface)
		target := args[1].(iface)
		if target.t == nil {
			panic("errors: target cannot be nil")
		}
		pt, ok := target.t.Underlying().(*types.Pointer)
		tp, _ := target.v.(*value)
		if !ok || tp == nil {
			panic("errors: target must be a non-nil pointer")
		}
		elem := pt.Elem()
		return errAs(fr, err, elem, tp)
	}
}

func errAs(fr *frame, err iface, elem types.Type, tp *value) bool {
	for {
		if err.t == nil {
			return false
		}
		if it, ok := elem.Underlying().(*types.Interface); ok {
			if types.Implements(err.t, it) {
				*tp = err
				return true
			}
		} else if types.Identical(err.t, elem) {
			*tp = err.v
			return true
		}
		if m := methodByName(fr, err.t, "As"); m != nil && m.Signature.Params().Len() == 1 {
			ptrT := types.NewPointer(elem)
			r := call(fr.i, fr, 0, m, []value{err.v, iface{t: ptrT, v: tp}})
			if b, ok := r.(bool); ok && b {
				return true
			}
		}
		m := methodByName(fr, err.t, "Unwrap")
		if m == nil {
			return false
		}
		res := call(fr.i, fr, 0, m, []value{err.v})
		switch r := res.(type) {
		case iface:
			err = r
		case []value:
			for _, e := range r {
				if errAs(fr, e.(iface), elem, tp) {
					return true
				}
			}
			return false
		default:
			return false
		}
	}
}

func init() {
	// (*errors.joinError).Error builds its result with unsafe.String(&b[0], len(b))
	externals["(*errors.joinError).Error"] = func(fr *frame, args []value) value {
		p := args[0].(*value)
		errs, _ := (*p).(structure)[0].([]value)
		var out symstr
		for k, e := range errs {
			if k > 0 {
				out = append(out, uint8('\n'))
			}
			it := e.(iface)
			m := methodByName(fr, it.t, "Error")
			out = append(out, toSymstr(call(fr.i, fr, 0, m, []value{it.v}))...)
		}
		return normStr(out)
	}
}

func init() {
	// slices.overlaps compares element addresses through unsafe.Pointer/uintptr arithmetic
	// (used by slices.Insert/Replace): decided here on the interpreter's own backing arrays.
	externals["slices.overlaps"] = func(fr *frame, args []value) value {
		a, _ := args[0].([]value)
		b, _ := args[1].([]value)
		if len(a) == 0 || len(b) == 0 {
			return false
		}
		a0, aN := uintptr(unsafe.Pointer(&a[0])), uintptr(unsafe.Pointer(&a[len(a)-1]))
		b0, bN := uintptr(unsafe.Pointer(&b[0])), uintptr(unsafe.Pointer(&b[len(b)-1]))
		return a0 <= bN && b0 <= aN
	}
}

func init() {
	// randomness is not observed by any checked property: a random source always yields zero
	for _, m := range []string{"Int63", "Int31", "Int", "Uint32", "Uint64", "Int63n", "Int31n", "Intn"} {
		externals["(*math/rand.Rand)."+m] = func(fr *frame, args []value) value {
			switch m {
			case "Int63", "Int63n":
				return int64(0)
			case "Int31", "Int31n":
				return int32(0)
			case "Uint32":
				return uint32(0)
			case "Uint64":
				return uint64(0)
			}
			return int(0)
		}
	}
}
