// Copyright 2013 The Go Authors. All rights reserved.
// Use of this source code is governed by a BSD-style
// license that can be found in the LICENSE file.

package interp

// Insertion-ordered map used for every Go map of the target program.
//
// Differences from upstream interp (which used Go's built-in map and a
// chained hashtable): (1) iteration order is the insertion order, so a
// re-execution of the same decision prefix is deterministic; (2) keys may be
// (partly) symbolic: a lookup with a symbolic key, or a lookup in a map that
// holds symbolic keys, compares with the candidate keys one by one and each
// undecided equality is a branch of the explorer.

import (
	"go/types"
)

type hashable interface {
	hash(t types.Type) int
	eq(t types.Type, x interface{}) bool
}

type omap struct {
	keyType types.Type
	builtin bool          // concrete keys are usable as Go map keys
	index   map[value]int // builtin concrete key -> slot
	hindex  map[int][]int // hash -> slots, for non-builtin concrete keys
	keys    []value
	vals    []value
	live    []bool
	n       int // live entries
	nsym    int // live entries whose key has symbolic parts
}

// makeMap returns an empty initialized map of key type kt.
func makeMap(kt types.Type, reserve int64) value {
	m := &omap{keyType: kt, builtin: usesBuiltinMap(kt)}
	if m.builtin {
		m.index = make(map[value]int)
	} else {
		m.hindex = make(map[int][]int)
	}
	return m
}

// hasSym reports whether v (a map key) contains symbolic parts.
func hasSym(v value) bool {
	v = forceDeep(v)
	switch v := v.(type) {
	case symv, symstr:
		return true
	case structure:
		for _, e := range v {
			if hasSym(e) {
				return true
			}
		}
	case array:
		for _, e := range v {
			if hasSym(e) {
				return true
			}
		}
	case iface:
		return hasSym(v.v)
	}
	return false
}

// find returns the slot of key k or -1.
func (m *omap) find(k value) int {
	if m == nil {
		return -1
	}
	if !hasSym(k) {
		if m.builtin {
			if s, ok := m.index[k]; ok {
				return s
			}
		} else {
			h := k.(hashable).hash(m.keyType)
			for _, s := range m.hindex[h] {
				if m.live[s] && equals(m.keyType, k, m.keys[s]) {
					return s
				}
			}
		}
		if m.nsym == 0 {
			return -1
		}
		for s := range m.keys {
			if m.live[s] && hasSym(m.keys[s]) && equals(m.keyType, k, m.keys[s]) {
				return s
			}
		}
		return -1
	}
	for s := range m.keys {
		if m.live[s] && equals(m.keyType, k, m.keys[s]) {
			return s
		}
	}
	return -1
}

func (m *omap) lookup(k value) (value, bool) {
	s := m.find(k)
	if s < 0 {
		return nil, false
	}
	return m.vals[s], true
}

func (m *omap) insert(k, v value) {
	if m == nil {
		panic("assignment to entry in nil map")
	}
	if s := m.find(k); s >= 0 {
		m.vals[s] = v
		return
	}
	s := len(m.keys)
	m.keys = append(m.keys, k)
	m.vals = append(m.vals, v)
	m.live = append(m.live, true)
	m.n++
	if hasSym(k) {
		m.nsym++
	} else if m.builtin {
		m.index[k] = s
	} else {
		h := k.(hashable).hash(m.keyType)
		m.hindex[h] = append(m.hindex[h], s)
	}
}

func (m *omap) delete(k value) {
	s := m.find(k)
	if s < 0 {
		return
	}
	m.live[s] = false
	m.n--
	if hasSym(m.keys[s]) {
		m.nsym--
	} else if m.builtin {
		delete(m.index, m.keys[s])
	}
	m.vals[s] = nil
}

func (m *omap) clear() {
	if m == nil {
		return
	}
	for s := range m.keys {
		if m.live[s] {
			m.delete(m.keys[s])
		}
	}
}

func (m *omap) len() int {
	if m == nil {
		return 0
	}
	return m.n
}

// omapIter iterates in insertion order over the entries that are live when
// reached (entries added during iteration may or may not be produced, as in Go).
type omapIter struct {
	m     *omap
	order []int // optional explicit permutation of slots
	i     int
}

func (it *omapIter) next() tuple {
	m := it.m
	if m != nil {
		if it.order != nil {
			for it.i < len(it.order) {
				s := it.order[it.i]
				it.i++
				if m.live[s] {
					return []value{true, m.keys[s], m.vals[s]}
				}
			}
			return []value{false, nil, nil}
		}
		for it.i < len(m.keys) {
			s := it.i
			it.i++
			if m.live[s] {
				return []value{true, m.keys[s], m.vals[s]}
			}
		}
	}
	return []value{false, nil, nil}
}

// liveSlots returns the slots of the live entries in insertion order.
func (m *omap) liveSlots() []int {
	var r []int
	if m != nil {
		for s := range m.keys {
			if m.live[s] {
				r = append(r, s)
			}
		}
	}
	return r
}

// clone returns a shallow copy of m (maps.Clone).
func (m *omap) clone() *omap {
	if m == nil {
		return nil
	}
	c := makeMap(m.keyType, 0).(*omap)
	for _, s := range m.liveSlots() {
		c.insert(m.keys[s], m.vals[s])
	}
	return c
}

func init() {
	// maps.clone is implemented in the runtime (linkname)
	externals["maps.clone"] = func(fr *frame, args []value) value {
		it := args[0].(iface)
		m, _ := it.v.(*omap)
		return iface{t: it.t, v: m.clone()}
	}
}
