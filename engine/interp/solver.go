package interp

// One long-lived SMT solver process per worker, driven over a pipe with
// push/pop. Only QF_BV terms (Bool + bit-vectors) are ever emitted.

import (
	"bufio"
	"fmt"
	"io"
	"os"
	"os/exec"
	"strings"
	"time"
)

type solver struct {
	cmd     *exec.Cmd
	in      *bufio.Writer
	inc     io.WriteCloser
	out     *bufio.Reader
	emitted []map[int]bool // per push level
	log     io.Writer
	name    string

	Queries  int
	Sat      int
	Unsat    int
	Unknown  int
	Errors   int
	SolverNs int64
}

// SolverCmd is the back end command line; the default is z3 5.1.0.
var SolverCmd = []string{"z3-new", "-in"}

// SolverTimeoutMs is the per-query timeout handed to the solver.
var SolverTimeoutMs = 20000

func newSolver() *solver {
	cmd := exec.Command(SolverCmd[0], SolverCmd[1:]...)
	in, _ := cmd.StdinPipe()
	outp, _ := cmd.StdoutPipe()
	cmd.Stderr = os.Stderr
	if err := cmd.Start(); err != nil {
		panic(engineError{"cannot start solver " + SolverCmd[0] + ": " + err.Error()})
	}
	s := &solver{cmd: cmd, inc: in, in: bufio.NewWriterSize(in, 1<<16), out: bufio.NewReader(outp), name: SolverCmd[0]}
	s.emitted = []map[int]bool{{}}
	if p := os.Getenv("VERIF_SMTLOG"); p != "" {
		f, _ := os.Create(fmt.Sprintf("%s.%d", p, os.Getpid()))
		s.log = f
	}
	if strings.Contains(SolverCmd[0], "z3") {
		s.send(fmt.Sprintf("(set-option :timeout %d)", SolverTimeoutMs))
	} else {
		s.send("(set-option :produce-models true)")
		s.send(fmt.Sprintf("(set-option :tlimit-per %d)", SolverTimeoutMs))
	}
	s.send("(set-logic QF_BV)")
	return s
}

func (s *solver) close() {
	s.send("(exit)")
	s.in.Flush()
	s.inc.Close()
	done := make(chan struct{})
	go func() { s.cmd.Wait(); close(done) }()
	select {
	case <-done:
	case <-time.After(2 * time.Second):
		s.cmd.Process.Kill()
	}
}

func (s *solver) send(line string) {
	if s.log != nil {
		fmt.Fprintln(s.log, line)
	}
	s.in.WriteString(line)
	s.in.WriteByte('\n')
}

func (s *solver) isEmitted(id int) bool {
	for _, m := range s.emitted {
		if m[id] {
			return true
		}
	}
	return false
}

func (s *solver) push() {
	s.send("(push 1)")
	s.emitted = append(s.emitted, map[int]bool{})
}

func (s *solver) pop() {
	s.send("(pop 1)")
	s.emitted = s.emitted[:len(s.emitted)-1]
}

// ref returns the SMT name of t, emitting definitions as needed.
func (s *solver) ref(t *term) string {
	switch t.op {
	case "const":
		if t.bits == 0 {
			if t.val != 0 {
				return "true"
			}
			return "false"
		}
		return fmt.Sprintf("(_ bv%d %d)", t.val, t.bits)
	case "var":
		if !s.isEmitted(t.id) {
			s.emitted[len(s.emitted)-1][t.id] = true
			s.send(fmt.Sprintf("(declare-const %s %s)", t.name, sortOf(t.bits)))
		}
		return t.name
	}
	name := fmt.Sprintf("t%d", t.id)
	if s.isEmitted(t.id) {
		return name
	}
	// iterative post-order to avoid deep recursion on long ite chains
	type item struct {
		t    *term
		next int
	}
	stack := []item{{t, 0}}
	for len(stack) > 0 {
		top := &stack[len(stack)-1]
		if top.next < len(top.t.args) {
			a := top.t.args[top.next]
			top.next++
			if a.op != "const" && a.op != "var" && !s.isEmitted(a.id) {
				stack = append(stack, item{a, 0})
			} else if a.op == "var" {
				s.ref(a)
			}
			continue
		}
		u := top.t
		stack = stack[:len(stack)-1]
		if s.isEmitted(u.id) {
			continue
		}
		var sb strings.Builder
		sb.WriteString("(")
		sb.WriteString(smtOp(u))
		for _, a := range u.args {
			sb.WriteString(" ")
			sb.WriteString(s.ref(a))
		}
		sb.WriteString(")")
		s.emitted[len(s.emitted)-1][u.id] = true
		s.send(fmt.Sprintf("(define-fun t%d () %s %s)", u.id, sortOf(u.bits), sb.String()))
	}
	return name
}

func (s *solver) assert(t *term) { s.send("(assert " + s.ref(t) + ")") }

func (s *solver) readLine() string {
	s.in.Flush()
	line, err := s.out.ReadString('\n')
	if err != nil {
		panic(engineError{"solver died: " + err.Error()})
	}
	return strings.TrimSpace(line)
}

// check returns "sat", "unsat" or "unknown" (which includes errors/timeouts).
func (s *solver) check() string {
	s.Queries++
	t0 := time.Now()
	s.send("(check-sat)")
	line := s.readLine()
	s.SolverNs += int64(time.Since(t0))
	switch line {
	case "sat":
		s.Sat++
	case "unsat":
		s.Unsat++
	case "unknown", "timeout":
		s.Unknown++
		line = "unknown"
	default:
		// an (error ...) line or anything unexpected is inconclusive
		s.Errors++
		fmt.Fprintln(os.Stderr, "solver: unexpected answer:", line)
		line = "unknown"
	}
	return line
}

// checkWith: is (current assertions) ∧ extra satisfiable? If so and wantModel, the
// model of vars is returned.
func (s *solver) checkWith(extra *term, vars []*term, wantModel bool) (string, map[string]uint64) {
	r := s.ref(extra) // definitions go to the current scope
	s.send("(push 1)")
	s.send("(assert " + r + ")")
	res := s.check()
	var m map[string]uint64
	if res == "sat" && wantModel {
		m = s.getValues(vars)
	}
	s.send("(pop 1)")
	return res, m
}

// getValues reads the model values of vars (must follow a sat answer).
func (s *solver) getValues(vars []*term) map[string]uint64 {
	m := map[string]uint64{}
	var names []string
	for _, v := range vars {
		if s.isEmitted(v.id) {
			names = append(names, v.name)
		}
	}
	if len(names) == 0 {
		return m
	}
	s.send("(get-value (" + strings.Join(names, " ") + "))")
	s.in.Flush()
	// read a balanced s-expression
	depth := 0
	var sb strings.Builder
	started := false
	for !started || depth > 0 {
		c, err := s.out.ReadByte()
		if err != nil {
			panic(engineError{"solver died in get-value: " + err.Error()})
		}
		sb.WriteByte(c)
		switch c {
		case '(':
			depth++
			started = true
		case ')':
			depth--
		}
	}
	s.out.ReadString('\n')
	txt := sb.String()
	if strings.Contains(txt, "error") {
		s.Errors++
		fmt.Fprintln(os.Stderr, "solver: get-value error:", txt)
		return m
	}
	// tokens: ( ( name #x.. ) ( name #b.. ) ... ) ; Bool values are true/false
	f := strings.Fields(strings.NewReplacer("(", " ", ")", " ").Replace(txt))
	for i := 0; i+1 < len(f); i += 2 {
		name, lit := f[i], f[i+1]
		var val uint64
		switch {
		case strings.HasPrefix(lit, "#x"):
			fmt.Sscanf(lit[2:], "%x", &val)
		case strings.HasPrefix(lit, "#b"):
			fmt.Sscanf(lit[2:], "%b", &val)
		case lit == "true":
			val = 1
		case lit == "false":
			val = 0
		case lit == "_": // (_ bvN w)
			// cvc5 may print (_ bv5 8): fields are "_", "bv5", "8"
			if i+3 < len(f)+1 && strings.HasPrefix(f[i+2], "bv") {
				fmt.Sscanf(f[i+2][2:], "%d", &val)
				i += 2
			}
		}
		m[name] = val
	}
	return m
}
