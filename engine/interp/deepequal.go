package interp

// reflect.DeepEqual over interpreter values (structural; symbolic leaves yield a term).

import (
	"go/types"
)

func deepEqTerm(t types.Type, x, y value, depth int) *term {
	x, y = unlazy(x), unlazy(y)
	if depth > 64 {
		panic(pathAbort{"unsupported", "reflect.DeepEqual: recursion too deep (cyclic value?)"})
	}
	if t == nil {
		return eqTerm(nil, x, y)
	}
	switch tt := t.Underlying().(type) {
	case *types.Pointer:
		px, _ := x.(*value)
		py, _ := y.(*value)
		if px == nil || py == nil {
			return constBool(px == py)
		}
		if px == py {
			return constBool(true)
		}
		return deepEqTerm(tt.Elem(), *px, *py, depth+1)
	case *types.Struct:
		xs, ys := x.(structure), y.(structure)
		r := constBool(true)
		for i := 0; i < tt.NumFields(); i++ {
			r = tand(r, deepEqTerm(tt.Field(i).Type(), xs[i], ys[i], depth+1))
		}
		return r
	case *types.Array:
		xa, ya := x.(array), y.(array)
		r := constBool(true)
		for i := range xa {
			r = tand(r, deepEqTerm(tt.Elem(), xa[i], ya[i], depth+1))
		}
		return r
	case *types.Slice:
		xs, _ := x.([]value)
		ys, _ := y.([]value)
		if (xs == nil) != (ys == nil) || len(xs) != len(ys) {
			return constBool(false)
		}
		r := constBool(true)
		for i := range xs {
			r = tand(r, deepEqTerm(tt.Elem(), xs[i], ys[i], depth+1))
		}
		return r
	case *types.Map:
		xm, _ := x.(*omap)
		ym, _ := y.(*omap)
		if (xm == nil) != (ym == nil) || xm.len() != ym.len() {
			return constBool(false)
		}
		r := constBool(true)
		for _, s := range xm.liveSlots() {
			v, ok := ym.lookup(xm.keys[s])
			if !ok {
				return constBool(false)
			}
			r = tand(r, deepEqTerm(tt.Elem(), xm.vals[s], v, depth+1))
		}
		return r
	case *types.Interface:
		xi, yi := x.(iface), y.(iface)
		if !sameType(xi.t, yi.t) {
			return constBool(false)
		}
		if xi.t == nil {
			return constBool(true)
		}
		return deepEqTerm(xi.t, xi.v, yi.v, depth+1)
	case *types.Signature:
		return constBool(false) // funcs are deeply equal only if both nil
	}
	return eqTerm(t, x, y)
}

func init() {
	externals["reflect.DeepEqual"] = func(fr *frame, args []value) value {
		x, y := args[0].(iface), args[1].(iface)
		if x.t == nil || y.t == nil {
			return x.t == nil && y.t == nil
		}
		if !types.Identical(x.t, y.t) {
			return false
		}
		return wrap(deepEqTerm(x.t, x.v, y.v, 0), types.Bool)
	}
}
