// Copyright 2013 The Go Authors. All rights reserved.
// Use of this source code is governed by a BSD-style
// license that can be found in the LICENSE file.

// Package ssa/interp defines an interpreter for the SSA
// representation of Go programs.
//
// This interpreter is provided as an adjunct for testing the SSA
// construction algorithm.  Its purpose is to provide a minimal
// metacircular implementation of the dynamic semantics of each SSA
// instruction.  It is not, and will never be, a production-quality Go
// interpreter.
//
// The following is a partial list of Go features that are currently
// unsupported or incomplete in the interpreter.
//
// * Unsafe operations, including all uses of unsafe.Pointer, are
// impossible to support given the "boxed" value representation we
// have chosen.
//
// * The reflect package is only partially implemented.
//
// * The "testing" package is no longer supported because it
// depends on low-level details that change too often.
//
// * "sync/atomic" operations are not atomic due to the "boxed" value
// representation: it is not possible to read, modify and write an
// interface value atomically. As a consequence, Mutexes are currently
// broken.
//
// * recover is only partially implemented.  Also, the interpreter
// makes no attempt to distinguish target panics from interpreter
// crashes.
//
// * the sizes of the int, uint and uintptr types in the target
// program are assumed to be the same as those of the interpreter
// itself.
//
// * all values occupy space, even those of types defined by the spec
// to have zero size, e.g. struct{}.  This can cause asymptotic
// performance degradation.
//
// * os.Exit is implemented using panic, causing deferred functions to
// run.
package interp // import "golang.org/x/tools/go/ssa/interp"

import (
	"fmt"
	"go/token"
	"go/types"
	"log"
	"os"
	"runtime"
	"slices"
	"strings"
	_ "unsafe"

	"golang.org/x/tools/go/ssa"
)

type continuation int

const (
	kNext continuation = iota
	kReturn
	kJump
)

// Mode is a bitmask of options affecting the interpreter.
type Mode uint

const (
	DisableRecover Mode = 1 << iota // Disable recover() in target programs; show interpreter crash instead.
	EnableTracing                   // Print a trace of all instructions as they are interpreted.
)

type methodSet map[string]*ssa.Function

// State shared between all interpreted goroutines.
type interpreter struct {
	osArgs             []value                // the value of os.Args
	prog               *ssa.Program           // the SSA program
	globals            map[*ssa.Global]*value // addresses of global variables (immutable)
	mode               Mode                   // interpreter options
	reflectPackage     *ssa.Package           // the fake reflect package
	errorMethods       methodSet              // the method set of reflect.error, which implements the error interface.
	rtypeMethods       methodSet              // the method set of rtype, which implements the reflect.Type interface.
	runtimeErrorString types.Type             // the runtime.errorString type
	sizes              types.Sizes            // the effective type-sizing function
	goroutines         int32                  // atomically updated
	inited             map[*ssa.Package]int   // lazy package initialisation: 0 no, 1 running, 2 done, 3 blocked
	replacements       map[string]value       // harness-level function replacements
	stubDepth          int                    // >0 while executing inside a replacement
	globalSet          map[*ssa.Global]bool
}

type deferred struct {
	fn    value
	args  []value
	instr *ssa.Defer
	tail  *deferred
}

type frame struct {
	i                *interpreter
	caller           *frame
	fn               *ssa.Function
	block, prevBlock *ssa.BasicBlock
	env              map[ssa.Value]value // dynamic values of SSA variables
	locals           []value
	defers           *deferred
	result           value
	panicking        bool
	panic            interface{}
	phitemps         []value
	cur              ssa.Instruction
}

// getLazy is get for instructions that merely move a value (store, phi, return, call arguments,
// conversion to interface, closure bindings): a lazy cell of an arbitrary decoded value
// (arbitrary.go) is passed on without being materialised.
func (fr *frame) getLazy(key ssa.Value) value {
	if r, ok := fr.env[key]; ok {
		return r
	}
	return fr.get(key)
}

func (fr *frame) get(key ssa.Value) value {
	switch key := key.(type) {
	case nil:
		// Hack; simplifies handling of optional attributes
		// such as ssa.Slice.{Low,High}.
		return nil
	case *ssa.Function, *ssa.Builtin:
		return key
	case *ssa.Const:
		return constValue(key)
	case *ssa.Global:
		if r, ok := fr.i.globals[key]; ok {
			if st := fr.i.inited[key.Pkg]; st != 2 {
				fr.i.globalAccess(key, fr)
			}
			return r
		}
	}
	if r, ok := fr.env[key]; ok {
		if lc, lazy := r.(*lazycell); lazy {
			r = lc.force()
			fr.env[key] = r
		}
		return r
	}
	panic(fmt.Sprintf("get: no value for %T: %v", key, key.Name()))
}

// runDefer runs a deferred call d.
// It always returns normally, but may set or clear fr.panic.
func (fr *frame) runDefer(d *deferred) {
	if fr.i.mode&EnableTracing != 0 {
		fmt.Fprintf(os.Stderr, "%s: invoking deferred function call\n",
			fr.i.prog.Fset.Position(d.instr.Pos()))
	}
	var ok bool
	defer func() {
		if !ok {
			// Deferred call created a new state of panic.
			fr.panicking = true
			fr.panic = recover()
		}
	}()
	call(fr.i, fr, d.instr.Pos(), d.fn, d.args)
	ok = true
}

// runDefers executes fr's deferred function calls in LIFO order.
//
// On entry, fr.panicking indicates a state of panic; if
// true, fr.panic contains the panic value.
//
// On completion, if a deferred call started a panic, or if no
// deferred call recovered from a previous state of panic, then
// runDefers itself panics after the last deferred call has run.
//
// If there was no initial state of panic, or it was recovered from,
// runDefers returns normally.
func (fr *frame) runDefers() {
	for d := fr.defers; d != nil; d = d.tail {
		fr.runDefer(d)
	}
	fr.defers = nil
	if fr.panicking {
		panic(fr.panic) // new panic, or still panicking
	}
}

// lookupMethod returns the method set for type typ, which may be one
// of the interpreter's fake types.
func lookupMethod(i *interpreter, typ types.Type, meth *types.Func) *ssa.Function {
	switch typ {
	case rtypeType:
		return i.rtypeMethods[meth.Id()]
	case errorType:
		return i.errorMethods[meth.Id()]
	}
	return i.prog.LookupMethod(typ, meth.Pkg(), meth.Name())
}

// visitInstr interprets a single ssa.Instruction within the activation
// record frame.  It returns a continuation value indicating where to
// read the next instruction from.
func visitInstr(fr *frame, instr ssa.Instruction) continuation {
	switch instr := instr.(type) {
	case *ssa.DebugRef:
		// no-op

	case *ssa.UnOp:
		fr.env[instr] = unop(instr, fr.get(instr.X))

	case *ssa.BinOp:
		fr.env[instr] = binop(instr.Op, instr.X.Type(), fr.get(instr.X), fr.get(instr.Y))

	case *ssa.Call:
		fn, args := prepareCall(fr, &instr.Call)
		fr.env[instr] = call(fr.i, fr, instr.Pos(), fn, args)

	case *ssa.ChangeInterface:
		fr.env[instr] = fr.get(instr.X)

	case *ssa.ChangeType:
		fr.env[instr] = fr.get(instr.X) // (can't fail)

	case *ssa.Convert:
		fr.env[instr] = conv(instr.Type(), instr.X.Type(), fr.get(instr.X))

	case *ssa.SliceToArrayPointer:
		fr.env[instr] = sliceToArrayPointer(instr.Type(), instr.X.Type(), fr.get(instr.X))

	case *ssa.MakeInterface:
		fr.env[instr] = iface{t: instr.X.Type(), v: fr.getLazy(instr.X)}

	case *ssa.Extract:
		fr.env[instr] = fr.get(instr.Tuple).(tuple)[instr.Index]

	case *ssa.Slice:
		fr.env[instr] = slice(fr.get(instr.X), fr.get(instr.Low), fr.get(instr.High), fr.get(instr.Max))

	case *ssa.Return:
		switch len(instr.Results) {
		case 0:
		case 1:
			fr.result = fr.getLazy(instr.Results[0])
		default:
			var res []value
			for _, r := range instr.Results {
				res = append(res, fr.getLazy(r))
			}
			fr.result = tuple(res)
		}
		fr.block = nil
		return kReturn

	case *ssa.RunDefers:
		fr.runDefers()

	case *ssa.Panic:
		panic(targetPanic{fr.get(instr.X)})

	case *ssa.Send:
		c, _ := fr.get(instr.Chan).(*chanv)
		chanSend(c, fr.get(instr.X))

	case *ssa.Store:
		addr := fr.get(instr.Addr)
		if sp, ok := addr.(symElemPtr); ok {
			addr = sp.concrete()
		}
		store(mustDeref(instr.Addr.Type()), addr.(*value), fr.getLazy(instr.Val))

	case *ssa.If:
		succ := 1
		cond := fr.get(instr.Cond)
		if sv, ok := cond.(symv); ok {
			cond = ex.branch(sv.t)
		}
		if cond.(bool) {
			succ = 0
		}
		fr.prevBlock, fr.block = fr.block, fr.block.Succs[succ]
		return kJump

	case *ssa.Jump:
		fr.prevBlock, fr.block = fr.block, fr.block.Succs[0]
		return kJump

	case *ssa.Defer:
		fn, args := prepareCall(fr, &instr.Call)
		defers := &fr.defers
		if into := fr.get(instr.DeferStack); into != nil {
			defers = into.(**deferred)
		}
		*defers = &deferred{
			fn:    fn,
			args:  args,
			instr: instr,
			tail:  *defers,
		}

	case *ssa.Go:
		fn, args := prepareCall(fr, &instr.Call)
		sched.spawn(fr.i, fn, args)

	case *ssa.MakeChan:
		fr.env[instr] = &chanv{cap: int(asInt64(fr.get(instr.Size))), elem: instr.Type().Underlying().(*types.Chan).Elem()}

	case *ssa.Alloc:
		var addr *value
		if instr.Heap {
			// new
			addr = new(value)
			fr.env[instr] = addr
		} else {
			// local
			addr = fr.env[instr].(*value)
		}
		*addr = zero(mustDeref(instr.Type()))

	case *ssa.MakeSlice:
		slice := make([]value, asInt64(fr.get(instr.Cap)))
		tElt := instr.Type().Underlying().(*types.Slice).Elem()
		for i := range slice {
			slice[i] = zero(tElt)
		}
		fr.env[instr] = slice[:asInt64(fr.get(instr.Len))]

	case *ssa.MakeMap:
		var reserve int64
		if instr.Reserve != nil {
			reserve = asInt64(fr.get(instr.Reserve))
		}
		if !fitsInt(reserve, fr.i.sizes) {
			panic(fmt.Sprintf("ssa.MakeMap.Reserve value %d does not fit in int", reserve))
		}
		fr.env[instr] = makeMap(instr.Type().Underlying().(*types.Map).Key(), reserve)

	case *ssa.Range:
		fr.env[instr] = rangeIter(fr.get(instr.X), instr.X.Type())

	case *ssa.Next:
		fr.env[instr] = fr.get(instr.Iter).(iter).next()

	case *ssa.FieldAddr:
		fr.env[instr] = &(*fr.get(instr.X).(*value)).(structure)[instr.Field]

	case *ssa.Field:
		fr.env[instr] = fr.get(instr.X).(structure)[instr.Field]

	case *ssa.IndexAddr:
		x := fr.get(instr.X)
		idx := fr.get(instr.Index)
		if sv, ok := idx.(symv); ok {
			var elems []value
			switch x := x.(type) {
			case []value:
				elems = x
			case *value:
				elems = []value((*x).(array))
			}
			if !ex.branch(inBoundsTerm(sv, len(elems))) {
				panic(fmt.Sprintf("runtime error: index out of range [sym] with length %d", len(elems)))
			}
			if len(elems) > 0 && isScalarValue(elems[0]) && len(elems) <= 512 {
				fr.env[instr] = symElemPtr{elems: elems, idx: sv}
				break
			}
			idx = concretizeValue(sv)
		}
		switch x := x.(type) {
		case []value:
			fr.env[instr] = &x[asInt64(idx)]
		case *value: // *array
			fr.env[instr] = &(*x).(array)[asInt64(idx)]
		default:
			panic(fmt.Sprintf("unexpected x type in IndexAddr: %T", x))
		}

	case *ssa.Index:
		x := fr.get(instr.X)
		idx := fr.get(instr.Index)

		if sv, ok := idx.(symv); ok {
			fr.env[instr] = symIndexValue(x, sv)
			break
		}
		switch x := x.(type) {
		case array:
			fr.env[instr] = x[asInt64(idx)]
		case string:
			fr.env[instr] = x[asInt64(idx)]
		case symstr:
			fr.env[instr] = x[asInt64(idx)]
		default:
			panic(fmt.Sprintf("unexpected x type in Index: %T", x))
		}

	case *ssa.Lookup:
		fr.env[instr] = lookup(instr, fr.get(instr.X), fr.get(instr.Index))

	case *ssa.MapUpdate:
		m := fr.get(instr.Map)
		key := fr.get(instr.Key)
		v := fr.get(instr.Value)
		switch m := m.(type) {
		case *omap:
			m.insert(key, v)
		default:
			panic(fmt.Sprintf("illegal map type: %T", m))
		}

	case *ssa.TypeAssert:
		fr.env[instr] = typeAssert(fr.i, instr, fr.get(instr.X).(iface))

	case *ssa.MakeClosure:
		var bindings []value
		for _, binding := range instr.Bindings {
			bindings = append(bindings, fr.getLazy(binding))
		}
		fr.env[instr] = &closure{instr.Fn.(*ssa.Function), bindings}

	case *ssa.Phi:
		log.Fatal("unreachable") // phis are processed at block entry

	case *ssa.Select:
		fr.env[instr] = chanSelect(fr, instr)

	default:
		panic(fmt.Sprintf("unexpected instruction: %T", instr))
	}

	// if val, ok := instr.(ssa.Value); ok {
	// 	fmt.Println(toString(fr.env[val])) // debugging
	// }

	return kNext
}

// prepareCall determines the function value and argument values for a
// function call in a Call, Go or Defer instruction, performing
// interface method lookup if needed.
func prepareCall(fr *frame, call *ssa.CallCommon) (fn value, args []value) {
	v := fr.get(call.Value)
	if call.Method == nil {
		// Function call.
		fn = v
	} else {
		// Interface method invocation.
		recv := v.(iface)
		if recv.t == nil {
			panic("method invoked on nil interface")
		}
		if f := lookupMethod(fr.i, recv.t, call.Method); f == nil {
			// Unreachable in well-typed programs.
			panic(fmt.Sprintf("method set for dynamic type %v does not contain %s", recv.t, call.Method))
		} else {
			fn = f
		}
		args = append(args, recv.v)
	}
	for _, arg := range call.Args {
		args = append(args, fr.getLazy(arg))
	}
	return
}

// call interprets a call to a function (function, builtin or closure)
// fn with arguments args, returning its result.
// callpos is the position of the callsite.
func call(i *interpreter, caller *frame, callpos token.Pos, fn value, args []value) value {
	switch fn := fn.(type) {
	case *ssa.Function:
		if fn == nil {
			panic("call of nil function") // nil of func type
		}
		return callSSA(i, caller, callpos, fn, args, nil)
	case *closure:
		return callSSA(i, caller, callpos, fn.Fn, args, fn.Env)
	case *ssa.Builtin:
		for k := range args {
			args[k] = unlazy(args[k])
		}
		return callBuiltin(caller, callpos, fn, args)
	case *hostFunc:
		return fn.f(args)
	}
	panic(fmt.Sprintf("cannot call %T", fn))
}

func loc(fset *token.FileSet, pos token.Pos) string {
	if pos == token.NoPos {
		return ""
	}
	return " at " + fset.Position(pos).String()
}

// callSSA interprets a call to function fn with arguments args,
// and lexical environment env, returning its result.
// callpos is the position of the callsite.
func callSSA(i *interpreter, caller *frame, callpos token.Pos, fn *ssa.Function, args []value, env []value) value {
	if fn.Synthetic == "package initializer" {
		// Imports are initialised lazily, on first use (see ensureInit).
		if caller != nil {
			return nil
		}
	} else if pkg := pkgOfFunc(fn); pkg != nil && i.inited[pkg] == 0 {
		i.ensureInit(pkg)
	}
	if i.mode&EnableTracing != 0 {
		fset := fn.Prog.Fset
		fmt.Fprintf(os.Stderr, "Entering %s%s.\n", fn, loc(fset, fn.Pos()))
		suffix := ""
		if caller != nil {
			suffix = ", resuming " + caller.fn.String() + loc(fset, callpos)
		}
		defer fmt.Fprintf(os.Stderr, "Leaving %s%s.\n", fn, suffix)
	}
	fr := &frame{
		i:      i,
		caller: caller, // for panic/recover
		fn:     fn,
	}
	if fn.Parent() != nil && len(i.replacements) > 0 {
		// an anonymous function can be replaced as a whole too (named parent$N)
		if rep, ok := i.replacements[fn.String()]; ok {
			ex.noteStub("replacement:" + fn.String())
			return call(i, caller, callpos, rep, args)
		}
	}
	if fn.Parent() == nil {
		if fn.Pkg != nil && fn.Pkg.Pkg.Path() == VerifrtPath {
			for k := range args {
				args[k] = unlazy(args[k])
			}
			if r, ok := intrinsic(fr, fn, args); ok {
				return r
			}
		}
		name := fn.String()
		if len(i.replacements) > 0 {
			// harness-level replacement (stubs never call the function they replace)
			if rep, ok := i.replacements[name]; ok {
				ex.noteStub("replacement:" + name)
				return call(i, caller, callpos, rep, args)
			}
		}
		ext := externals[name]
		if ext == nil {
			// an instance of a generic function: externals are registered under the generic's name
			if o := fn.Origin(); o != nil && o != fn {
				ext = externals[o.String()]
			}
		}
		if ext != nil {
			if i.mode&EnableTracing != 0 {
				fmt.Fprintln(os.Stderr, "\t(external)")
			}
			for k := range args {
				args[k] = unlazy(args[k])
			}
			return ext(fr, args)
		}
		if zeroStubs[name] {
			ex.noteStub("zero-stub:" + name)
			res := fn.Signature.Results()
			switch res.Len() {
			case 0:
				return nil
			case 1:
				return zero(res.At(0).Type())
			default:
				t := make(tuple, res.Len())
				for k := 0; k < res.Len(); k++ {
					t[k] = zero(res.At(k).Type())
				}
				return t
			}
		}
	}
	if fn.Blocks == nil {
		// function bodies are built lazily, one package at a time
		if p := pkgOfFunc(fn); p != nil {
			buildPackage(p)
		}
		if fn.Blocks == nil {
			panic(pathAbort{"unsupported", "no code for function: " + fn.String()})
		}
	}
	if ex != nil && !ex.seenFuncs[fn] {
		ex.seenFuncs[fn] = true
	}

	// generic function body?
	if fn.TypeParams().Len() > 0 && len(fn.TypeArgs()) == 0 {
		panic("interp requires ssa.BuilderMode to include InstantiateGenerics to execute generics")
	}

	fr.env = make(map[ssa.Value]value)
	fr.block = fn.Blocks[0]
	fr.locals = make([]value, len(fn.Locals))
	for i, l := range fn.Locals {
		fr.locals[i] = zero(mustDeref(l.Type()))
		fr.env[l] = &fr.locals[i]
	}
	for i, p := range fn.Params {
		fr.env[p] = args[i]
	}
	for i, fv := range fn.FreeVars {
		fr.env[fv] = env[i]
	}
	for fr.block != nil {
		runFrame(fr)
	}
	// Destroy the locals to avoid accidental use after return.
	for i := range fn.Locals {
		fr.locals[i] = bad{}
	}
	return fr.result
}

// runFrame executes SSA instructions starting at fr.block and
// continuing until a return, a panic, or a recovered panic.
//
// After a panic, runFrame panics.
//
// After a normal return, fr.result contains the result of the call
// and fr.block is nil.
//
// A recovered panic in a function without named return parameters
// (NRPs) becomes a normal return of the zero value of the function's
// result type.
//
// After a recovered panic in a function with NRPs, fr.result is
// undefined and fr.block contains the block at which to resume
// control.
func runFrame(fr *frame) {
	defer func() {
		if fr.block == nil {
			return // normal return
		}
		if fr.i.mode&DisableRecover != 0 {
			return // let interpreter crash
		}
		r := recover()
		switch r.(type) {
		case pathAbort, engineError, goroutineKilled:
			// engine-level unwinding: target defers do not run
			fr.block = nil
			panic(r)
		}
		fr.panicking = true
		fr.panic = r
		if ex != nil && ex.panicOrigin == "" {
			pos := ""
			if fr.cur != nil {
				pos = shortPos(fr.i.prog.Fset.Position(fr.cur.Pos()))
			}
			ex.panicOrigin = fr.fn.String() + " " + pos
			if os.Getenv("VERIF_DEBUG") != "" {
				fmt.Fprintf(os.Stderr, "  panic at %s: %v\n", ex.panicOrigin, fr.panic)
				for f := fr; f != nil; f = f.caller {
					fmt.Fprintf(os.Stderr, "      in %s\n", f.fn)
				}
			}
		}
		fr.runDefers()
		fr.block = fr.fn.Recover
	}()

	for {
		nonPhis := executePhis(fr)
		if ex != nil {
			ex.instrs += int64(len(nonPhis))
			if ex.instrs > ex.instrBudget && !ex.inInit {
				panic(pathAbort{"budget", fmt.Sprintf("instruction budget %d exceeded", ex.instrBudget)})
			}
		}
		for _, instr := range nonPhis {
			if fr.i.mode&EnableTracing != 0 {
				if v, ok := instr.(ssa.Value); ok {
					fmt.Fprintln(os.Stderr, "\t", v.Name(), "=", instr)
				} else {
					fmt.Fprintln(os.Stderr, "\t", instr)
				}
			}
			fr.cur = instr
			if visitInstr(fr, instr) == kReturn {
				return
			}
			// Inv: kNext (continue) or kJump (last instr)
		}
	}
}

// executePhis executes the phi-nodes at the start of the current
// block and returns the non-phi instructions.
func executePhis(fr *frame) []ssa.Instruction {
	firstNonPhi := -1
	for i, instr := range fr.block.Instrs {
		if _, ok := instr.(*ssa.Phi); !ok {
			firstNonPhi = i
			break
		}
	}
	// Inv: 0 <= firstNonPhi; every block contains a non-phi.

	nonPhis := fr.block.Instrs[firstNonPhi:]
	if firstNonPhi > 0 {
		phis := fr.block.Instrs[:firstNonPhi]
		// Execute parallel assignment of phis.
		//
		// See "the swap problem" in Briggs et al's "Practical Improvements
		// to the Construction and Destruction of SSA Form" for discussion.
		predIndex := slices.Index(fr.block.Preds, fr.prevBlock)
		fr.phitemps = fr.phitemps[:0]
		for _, phi := range phis {
			phi := phi.(*ssa.Phi)
			if fr.i.mode&EnableTracing != 0 {
				fmt.Fprintln(os.Stderr, "\t", phi.Name(), "=", phi)
			}
			fr.phitemps = append(fr.phitemps, fr.getLazy(phi.Edges[predIndex]))
		}
		for i, phi := range phis {
			fr.env[phi.(*ssa.Phi)] = fr.phitemps[i]
		}
	}
	return nonPhis
}

// doRecover implements the recover() built-in.
func doRecover(caller *frame) value {
	// recover() must be exactly one level beneath the deferred
	// function (two levels beneath the panicking function) to
	// have any effect.  Thus we ignore both "defer recover()" and
	// "defer f() -> g() -> recover()".
	if caller.i.mode&DisableRecover == 0 &&
		caller != nil && !caller.panicking &&
		caller.caller != nil && caller.caller.panicking {
		caller.caller.panicking = false
		p := caller.caller.panic
		caller.caller.panic = nil

		// TODO(adonovan): support runtime.Goexit.
		switch p := p.(type) {
		case targetPanic:
			// The target program explicitly called panic().
			return p.v
		case runtime.Error:
			// The interpreter encountered a runtime error.
			return iface{caller.i.runtimeErrorString, strings.TrimPrefix(p.Error(), "runtime error: ")}
		case string:
			// The interpreter explicitly called panic().
			return iface{caller.i.runtimeErrorString, strings.TrimPrefix(p, "runtime error: ")}
		default:
			panic(fmt.Sprintf("unexpected panic type %T in target call to recover()", p))
		}
	}
	return iface{}
}

// NewWorker prepares an interpreter for harness entry `entry` of package harnessPkg.
func NewWorker(harnessPkg *ssa.Package, entry string, sizes types.Sizes, mode Mode) (*Worker, error) {
	i := &interpreter{
		prog:         harnessPkg.Prog,
		globals:      make(map[*ssa.Global]*value),
		mode:         mode,
		sizes:        sizes,
		goroutines:   1,
		inited:       map[*ssa.Package]int{},
		replacements: map[string]value{},
	}
	theInterp = i
	runtimePkg := i.prog.ImportedPackage("runtime")
	if runtimePkg == nil {
		return nil, fmt.Errorf("ssa.Program doesn't include runtime package")
	}
	i.runtimeErrorString = runtimePkg.Type("errorString").Object().Type()
	initReflect(i)
	i.osArgs = append(i.osArgs, "verif")
	for _, pkg := range i.prog.AllPackages() {
		for _, m := range pkg.Members {
			if v, ok := m.(*ssa.Global); ok {
				cell := zero(mustDeref(v.Type()))
				i.globals[v] = &cell
			}
		}
	}
	fn := harnessPkg.Func(entry)
	if fn == nil {
		return nil, fmt.Errorf("harness entry %s not found in %s", entry, harnessPkg.Pkg.Path())
	}
	return &Worker{i: i, fn: fn, Entry: entry, pkg: harnessPkg}, nil
}

// Init runs the harness package's initialiser (imports follow lazily) and
// reads the harness's replacement table, if any.
func (w *Worker) Init() (err error) {
	defer func() {
		if r := recover(); r != nil {
			err = fmt.Errorf("harness package initialisation failed: %v (at %s)", describePanic(r), ex.panicOrigin)
		}
	}()
	sched = newScheduler()
	ex.res = &BatchResult{}
	w.i.ensureInit(w.pkg)
	if st := w.i.inited[w.pkg]; st != 2 {
		return fmt.Errorf("harness package could not be initialised (state %d)", st)
	}
	if g, ok := w.pkg.Members["verifReplacements"].(*ssa.Global); ok {
		if m, ok := (*w.i.globals[g]).(*omap); ok && m != nil {
			for _, s := range m.liveSlots() {
				w.i.replacements[m.keys[s].(string)] = m.vals[s].(iface).v
			}
		}
	}
	// verifReplacementsIf: replacements that apply only to runs with a given parameter value;
	// keys have the form "param=value|function"
	if g, ok := w.pkg.Members["verifReplacementsIf"].(*ssa.Global); ok {
		if m, ok := (*w.i.globals[g]).(*omap); ok && m != nil {
			for _, s := range m.liveSlots() {
				key := m.keys[s].(string)
				cond, fn, ok := strings.Cut(key, "|")
				pn, pv, ok2 := strings.Cut(cond, "=")
				if !ok || !ok2 {
					return fmt.Errorf("verifReplacementsIf: bad key %q", key)
				}
				if ex.params[pn] == pv {
					w.i.replacements[fn] = m.vals[s].(iface).v
				}
			}
		}
	}
	return nil
}

func describePanic(r interface{}) string {
	switch r := r.(type) {
	case pathAbort:
		return r.kind + ": " + r.why
	case engineError:
		return r.msg
	case targetPanic:
		return "panic: " + toStringShort(r.v)
	case error:
		return r.Error()
	}
	return fmt.Sprint(r)
}

// RepoDir is the root of the tree under test (positions are reported relative to it).
var RepoDir = "/repo"

func shortPos(p token.Position) string {
	f := p.Filename
	if strings.HasPrefix(f, RepoDir+"/") {
		f = f[len(RepoDir)+1:]
	} else if k := strings.Index(f, "/pkg/mod/"); k >= 0 {
		f = f[k+9:]
	} else if k := strings.Index(f, "/src/"); k >= 0 {
		f = f[k+5:]
	}
	return fmt.Sprintf("%s:%d", f, p.Line)
}

func (i *interpreter) resetPerPath() {
	sched = newScheduler()
	i.stubDepth = 0
}

// buildPackage builds the SSA bodies of p; a failure of the SSA builder is an unsupported path.
func buildPackage(p *ssa.Package) {
	defer func() {
		if r := recover(); r != nil {
			panic(pathAbort{"unsupported", fmt.Sprintf("SSA builder failed on package %s: %v", p.Pkg.Path(), r)})
		}
	}()
	p.Build()
}

func pkgOfFunc(fn *ssa.Function) *ssa.Package {
	if fn.Pkg != nil {
		return fn.Pkg
	}
	if o := fn.Origin(); o != nil && o.Pkg != nil {
		return o.Pkg
	}
	if p := fn.Parent(); p != nil {
		return pkgOfFunc(p)
	}
	if obj := fn.Object(); obj != nil && obj.Pkg() != nil {
		return fn.Prog.Package(obj.Pkg())
	}
	return nil
}

// ensureInit runs pkg's initialiser on first use.
func (i *interpreter) ensureInit(pkg *ssa.Package) {
	if i.inited[pkg] != 0 {
		return
	}
	path := pkg.Pkg.Path()
	if !initAllowed(path) {
		i.inited[pkg] = 3
		return
	}
	init := pkg.Func("init")
	if init == nil {
		i.inited[pkg] = 2
		return
	}
	buildPackage(pkg)
	i.inited[pkg] = 1
	wasInit := ex.inInit
	ex.inInit = true
	ok := false
	defer func() {
		ex.inInit = wasInit
		if !ok {
			i.inited[pkg] = 3
			fmt.Fprintf(os.Stderr, "verif: initialiser of %s failed; package marked uninitialised\n", path)
		}
	}()
	callSSA(i, nil, token.NoPos, init, nil, nil)
	i.inited[pkg] = 2
	ok = true
}

// globalAccess is called when a global of a package that is not (yet)
// initialised is referenced.
func (i *interpreter) globalAccess(g *ssa.Global, fr *frame) {
	if g.Pkg == nil {
		return
	}
	st := i.inited[g.Pkg]
	if st == 0 {
		i.ensureInit(g.Pkg)
		st = i.inited[g.Pkg]
	}
	if st == 1 || st == 2 {
		return
	}
	path := g.Pkg.Pkg.Path()
	if f := globalInit[path+"."+g.Name()]; f != nil {
		cell := i.globals[g]
		if !i.globalSet[g] {
			if i.globalSet == nil {
				i.globalSet = map[*ssa.Global]bool{}
			}
			i.globalSet[g] = true
			*cell = f(i)
		}
		return
	}
	if zeroGlobalsOK[path] || zeroGlobalsOK[path+"."+g.Name()] || strings.HasSuffix(g.Name(), "$guard") {
		return
	}
	panic(pathAbort{"unsupported", "global " + path + "." + g.Name() + " of uninitialised package (in " + fr.fn.String() + ")"})
}

func mustDeref(t types.Type) types.Type {
	if p, ok := t.Underlying().(*types.Pointer); ok {
		return p.Elem()
	}
	panic("not pointer: " + t.String())
}

// Packages whose initialisers cannot be interpreted (unsafe, linkname,
// assembly, OS access). Their functions are intercepted or unsupported.
var skipInit = map[string]bool{"errors": true, "runtime": true, "reflect": true, "sync": true, "sync/atomic": true, "os": true, "syscall": true,
	"time": true, "internal/reflectlite": true, "internal/godebug": true, "internal/poll": true, "internal/syscall/unix": true, "internal/cpu": true,
	"internal/bytealg": true, "internal/abi": true, "log": true, "math/rand": true, "internal/testlog": true, "internal/bisect": true,
	"unique": true, "weak": true, "iter": true, "internal/race": true, "internal/chacha8rand": true, "math/rand/v2": true, "fmt": true,
	"internal/fmtsort": true, "os/exec": true, "os/signal": true, "os/user": true, "net": true, "net/http": true, "crypto/rand": true,
	"encoding/gob": true, "encoding/json": true, "encoding/xml": true, "internal/sync": true, "internal/runtime/atomic": true,
	"internal/runtime/sys": true, "internal/runtime/maps": true, "internal/goos": true, "internal/goarch": true, "log/slog": true,
	"unsafe": true, "runtime/debug": true, "runtime/pprof": true, "runtime/trace": true, "testing": true, "flag": true, "crypto/tls": true,
	"crypto/x509": true, "internal/singleflight": true, "internal/poll/fd": true, "hash/crc32": true, "vendor/golang.org/x/sys/cpu": true,
	"golang.org/x/sys/cpu": true, "github.com/google/uuid": true, "golang.org/x/sys/unix": true, "internal/syscall/execenv": true,
}

// Packages of uninitialised (skipped) packages whose zero-valued globals are harmless to read.
var zeroGlobalsOK = map[string]bool{"runtime": true, "sync": true, "sync/atomic": true, "internal/race": true, "internal/godebug": true,
	"internal/bytealg": true, "internal/cpu": true, "internal/abi": true, "reflect": true, "internal/reflectlite": true, "internal/sync": true,
	"time": true, "fmt": true, "log": true, "internal/testlog": true, "syscall.errors": true, "syscall.signals": true}

// globalInit supplies the initial value of individual globals of skipped packages.
var globalInit map[string]func(i *interpreter) value

func init() {
	globalInit = map[string]func(i *interpreter) value{
		"os.ErrNotExist":   func(i *interpreter) value { return i.globalOf("io/fs", "ErrNotExist") },
		"os.ErrExist":      func(i *interpreter) value { return i.globalOf("io/fs", "ErrExist") },
		"os.ErrPermission": func(i *interpreter) value { return i.globalOf("io/fs", "ErrPermission") },
		"os.ErrInvalid":    func(i *interpreter) value { return i.globalOf("io/fs", "ErrInvalid") },
		"os.ErrClosed":     func(i *interpreter) value { return i.globalOf("io/fs", "ErrClosed") },
		"os.Args":          func(i *interpreter) value { return []value{"verif"} },
		"errors.ErrUnsupported": func(i *interpreter) value {
			ep := i.prog.ImportedPackage("errors").Type("errorString").Type()
			p := new(value)
			*p = structure{"unsupported operation"}
			return iface{t: types.NewPointer(ep), v: p}
		},
	}
}

func (i *interpreter) globalOf(pkgPath, name string) value {
	pkg := i.prog.ImportedPackage(pkgPath)
	if pkg == nil {
		panic(pathAbort{"unsupported", "package not loaded: " + pkgPath})
	}
	i.ensureInit(pkg)
	g, _ := pkg.Members[name].(*ssa.Global)
	if g == nil {
		panic(pathAbort{"unsupported", "no global " + pkgPath + "." + name})
	}
	return *i.globals[g]
}

func initAllowed(p string) bool {
	if skipInit[p] {
		return false
	}
	if p == "net/textproto" || p == "net/url" {
		return true
	}
	if strings.HasPrefix(p, "google.golang.org/protobuf") || strings.HasPrefix(p, "deps.dev/api") || strings.HasPrefix(p, "google.golang.org/grpc") ||
		strings.HasPrefix(p, "google.golang.org/genproto") || strings.HasPrefix(p, "crypto/") || strings.HasPrefix(p, "net/") ||
		strings.HasPrefix(p, "github.com/google/osv-scalibr/binary/proto") {
		return false
	}
	return true
}

var zeroStubs = map[string]bool{
	"github.com/google/osv-scalibr/log.Infof": true, "github.com/google/osv-scalibr/log.Warnf": true,
	"github.com/google/osv-scalibr/log.Errorf": true, "github.com/google/osv-scalibr/log.Debugf": true,
	"github.com/google/osv-scalibr/log.Info": true, "github.com/google/osv-scalibr/log.Warn": true,
	"github.com/google/osv-scalibr/log.Error": true, "github.com/google/osv-scalibr/log.Debug": true,
	// package-level random sources (seeded from the clock in some detectors' initialisers): no
	// checked property observes randomness; a nil source panics if it is ever used
	"math/rand.NewSource": true, "math/rand.New": true,
}
