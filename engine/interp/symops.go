package interp

// Symbolic values and the operations of the interpreter lifted to them.

import (
	"fmt"
	"go/token"
	"go/types"
)

// symv is a bool or integer whose value is an SMT term.
type symv struct {
	t    *term
	kind types.BasicKind // Bool, Int.., Uint..
}

// symstr is a string of concrete length whose bytes may be symbolic
// (each element is uint8 or symv{Uint8}).
type symstr []value

func kindBits(k types.BasicKind) (bits int, signed bool) {
	switch k {
	case types.Bool, types.UntypedBool:
		return 0, false
	case types.Int8:
		return 8, true
	case types.Int16:
		return 16, true
	case types.Int32, types.UntypedRune:
		return 32, true
	case types.Int, types.Int64, types.UntypedInt:
		return 64, true
	case types.Uint8:
		return 8, false
	case types.Uint16:
		return 16, false
	case types.Uint32:
		return 32, false
	case types.Uint, types.Uint64, types.Uintptr:
		return 64, false
	}
	panic(fmt.Sprintf("kindBits: %v", k))
}

func kindOfValue(v value) types.BasicKind {
	switch v := v.(type) {
	case symv:
		return v.kind
	case bool:
		return types.Bool
	case int:
		return types.Int
	case int8:
		return types.Int8
	case int16:
		return types.Int16
	case int32:
		return types.Int32
	case int64:
		return types.Int64
	case uint:
		return types.Uint
	case uint8:
		return types.Uint8
	case uint16:
		return types.Uint16
	case uint32:
		return types.Uint32
	case uint64:
		return types.Uint64
	case uintptr:
		return types.Uintptr
	}
	panic(fmt.Sprintf("kindOfValue: %T", v))
}

func isSym(v value) bool {
	switch v.(type) {
	case symv, symstr:
		return true
	}
	return false
}

func toTerm(v value) *term {
	switch v := v.(type) {
	case symv:
		return v.t
	case bool:
		return constBool(v)
	}
	k := kindOfValue(v)
	bits, _ := kindBits(k)
	return constBV(asUint64Any(v), bits)
}

func asUint64Any(v value) uint64 {
	switch v := v.(type) {
	case int:
		return uint64(v)
	case int8:
		return uint64(v)
	case int16:
		return uint64(v)
	case int32:
		return uint64(v)
	case int64:
		return uint64(v)
	case uint:
		return uint64(v)
	case uint8:
		return uint64(v)
	case uint16:
		return uint64(v)
	case uint32:
		return uint64(v)
	case uint64:
		return v
	case uintptr:
		return uint64(v)
	}
	panic(fmt.Sprintf("asUint64Any: %T", v))
}

// fromBits converts a (masked) bit pattern to a native value of kind k.
func fromBits(v uint64, k types.BasicKind) value {
	switch k {
	case types.Bool:
		return v != 0
	case types.Int:
		return int(int64(v))
	case types.Int8:
		return int8(v)
	case types.Int16:
		return int16(v)
	case types.Int32:
		return int32(v)
	case types.Int64:
		return int64(v)
	case types.Uint:
		return uint(v)
	case types.Uint8:
		return uint8(v)
	case types.Uint16:
		return uint16(v)
	case types.Uint32:
		return uint32(v)
	case types.Uint64:
		return v
	case types.Uintptr:
		return uintptr(v)
	}
	panic("fromBits")
}

func wrap(t *term, k types.BasicKind) value {
	if t.isConst() {
		return fromBits(t.val, k)
	}
	return symv{t, k}
}

// concretizeValue case-splits a symbolic scalar into a concrete value.
func concretizeValue(v value) value {
	if sv, ok := v.(symv); ok {
		return fromBits(ex.concretize(sv.t), sv.kind)
	}
	return v
}

// concretizeStr case-splits every symbolic byte of s.
func concretizeStr(v value) string {
	switch s := v.(type) {
	case string:
		return s
	case symstr:
		b := make([]byte, len(s))
		for i, x := range s {
			b[i] = concretizeValue(x).(uint8)
		}
		return string(b)
	}
	panic(fmt.Sprintf("concretizeStr: %T", v))
}

// ---------------------------------------------------------------- ops

func symBinop(op token.Token, x, y value) value {
	_, xs := x.(symstr)
	_, ys := y.(symstr)
	if xs || ys {
		return symStrBinop(op, toSymstr(x), toSymstr(y))
	}
	k := kindOfValue(x)
	if _, ok := x.(symv); !ok {
		k = kindOfValue(y)
		if op == token.SHL || op == token.SHR {
			k = kindOfValue(x)
		}
	}
	bits, signed := kindBits(k)
	a, b := toTerm(x), toTerm(y)
	if op == token.SHL || op == token.SHR {
		// the shift count has its own type; bring it to the operand width, saturating
		kb, ksigned := kindBits(kindOfValue(y))
		if ksigned {
			if ex.branch(mk("bvslt", 0, b, constBV(0, kb))) {
				panic("runtime error: negative shift amount")
			}
		}
		if kb < bits {
			b = resize(b, bits, false)
		} else if kb > bits {
			big := mk("bvuge", 0, b, constBV(uint64(bits), kb))
			b = tite(big, constBV(uint64(bits), bits), resize(b, bits, false))
		}
	}
	cmp := func(s, u string) value {
		o := u
		if signed {
			o = s
		}
		return wrap(mk(o, 0, a, b), types.Bool)
	}
	switch op {
	case token.ADD:
		return wrap(mk("bvadd", bits, a, b), k)
	case token.SUB:
		return wrap(mk("bvsub", bits, a, b), k)
	case token.MUL:
		return wrap(mk("bvmul", bits, a, b), k)
	case token.QUO, token.REM:
		if ex.branch(teq(b, constBV(0, bits))) {
			panic("runtime error: integer divide by zero")
		}
		o := "bvudiv"
		switch {
		case op == token.QUO && signed:
			o = "bvsdiv"
		case op == token.REM && signed:
			o = "bvsrem"
		case op == token.REM:
			o = "bvurem"
		}
		return wrap(mk(o, bits, a, b), k)
	case token.AND:
		if bits == 0 {
			return wrap(tand(a, b), k)
		}
		return wrap(mk("bvand", bits, a, b), k)
	case token.OR:
		if bits == 0 {
			return wrap(tor(a, b), k)
		}
		return wrap(mk("bvor", bits, a, b), k)
	case token.XOR:
		if bits == 0 {
			return wrap(tnot(teq(a, b)), k)
		}
		return wrap(mk("bvxor", bits, a, b), k)
	case token.AND_NOT:
		return wrap(mk("bvand", bits, a, mk("bvnot", bits, b)), k)
	case token.SHL:
		return wrap(mk("bvshl", bits, a, b), k)
	case token.SHR:
		if signed {
			return wrap(mk("bvashr", bits, a, b), k)
		}
		return wrap(mk("bvlshr", bits, a, b), k)
	case token.EQL:
		return wrap(teq(a, b), types.Bool)
	case token.NEQ:
		return wrap(tnot(teq(a, b)), types.Bool)
	case token.LSS:
		return cmp("bvslt", "bvult")
	case token.LEQ:
		return cmp("bvsle", "bvule")
	case token.GTR:
		return cmp("bvsgt", "bvugt")
	case token.GEQ:
		return cmp("bvsge", "bvuge")
	}
	panic("symBinop: unsupported op " + op.String())
}

func toSymstr(v value) symstr {
	switch v := v.(type) {
	case symstr:
		return v
	case string:
		r := make(symstr, len(v))
		for i := 0; i < len(v); i++ {
			r[i] = v[i]
		}
		return r
	}
	panic(fmt.Sprintf("toSymstr: %T", v))
}

// normStr collapses an all-concrete symstr to a Go string.
func normStr(s symstr) value {
	b := make([]byte, len(s))
	for i, x := range s {
		c, ok := x.(uint8)
		if !ok {
			return s
		}
		b[i] = c
	}
	return string(b)
}

func byteEq(a, b value) *term {
	ca, oka := a.(uint8)
	cb, okb := b.(uint8)
	if oka && okb {
		return constBool(ca == cb)
	}
	return teq(toTerm(a), toTerm(b))
}
func byteLt(a, b value) *term {
	ca, oka := a.(uint8)
	cb, okb := b.(uint8)
	if oka && okb {
		return constBool(ca < cb)
	}
	return mk("bvult", 0, toTerm(a), toTerm(b))
}

func strEqTerm(a, b symstr) *term {
	if len(a) != len(b) {
		return constBool(false)
	}
	r := constBool(true)
	for i := len(a) - 1; i >= 0; i-- {
		r = tand(byteEq(a[i], b[i]), r)
	}
	return r
}

// strLtTerm: a < b lexicographically.
func strLtTerm(a, b symstr) *term {
	n := len(a)
	if len(b) < n {
		n = len(b)
	}
	r := constBool(len(a) < len(b))
	for i := n - 1; i >= 0; i-- {
		r = tor(byteLt(a[i], b[i]), tand(byteEq(a[i], b[i]), r))
	}
	return r
}

func symStrBinop(op token.Token, a, b symstr) value {
	switch op {
	case token.ADD:
		r := make(symstr, 0, len(a)+len(b))
		r = append(r, a...)
		r = append(r, b...)
		return normStr(r)
	case token.EQL:
		return wrap(strEqTerm(a, b), types.Bool)
	case token.NEQ:
		return wrap(tnot(strEqTerm(a, b)), types.Bool)
	case token.LSS:
		return wrap(strLtTerm(a, b), types.Bool)
	case token.GTR:
		return wrap(strLtTerm(b, a), types.Bool)
	case token.LEQ:
		return wrap(tnot(strLtTerm(b, a)), types.Bool)
	case token.GEQ:
		return wrap(tnot(strLtTerm(a, b)), types.Bool)
	}
	panic("symStrBinop " + op.String())
}

func symUnop(op token.Token, x symv) value {
	bits, _ := kindBits(x.kind)
	switch op {
	case token.NOT:
		return wrap(tnot(x.t), types.Bool)
	case token.SUB:
		return wrap(mk("bvneg", bits, x.t), x.kind)
	case token.XOR:
		return wrap(mk("bvnot", bits, x.t), x.kind)
	}
	panic("symUnop " + op.String())
}

func symConvInt(x symv, dst types.BasicKind) value {
	sb, ssigned := kindBits(x.kind)
	db, _ := kindBits(dst)
	if sb == 0 || db == 0 {
		panic("symConvInt bool")
	}
	return wrap(resize(x.t, db, ssigned), dst)
}

// eqTerm returns the term for x == y (Go equality at type t) without forking.
func eqTerm(t types.Type, x, y value) *term {
	switch x := x.(type) {
	case symv:
		return teq(x.t, toTerm(y))
	case symstr:
		return strEqTerm(x, toSymstr(y))
	case string:
		if ys, ok := y.(symstr); ok {
			return strEqTerm(toSymstr(x), ys)
		}
		return constBool(x == y.(string))
	case structure:
		ys := y.(structure)
		r := constBool(true)
		if tStruct, ok := t.Underlying().(*types.Struct); ok {
			for i, n := 0, tStruct.NumFields(); i < n; i++ {
				if f := tStruct.Field(i); f.Name() != "_" {
					r = tand(r, eqTerm(f.Type(), x[i], ys[i]))
				}
			}
			return r
		}
		for i := range x {
			r = tand(r, eqTerm(nil, x[i], ys[i]))
		}
		return r
	case array:
		ya := y.(array)
		var tElt types.Type
		if ta, ok := t.Underlying().(*types.Array); ok {
			tElt = ta.Elem()
		}
		r := constBool(true)
		for i := range x {
			r = tand(r, eqTerm(tElt, x[i], ya[i]))
		}
		return r
	case iface:
		yi := y.(iface)
		if !sameType(x.t, yi.t) {
			return constBool(false)
		}
		if x.t == nil {
			return constBool(true)
		}
		return eqTerm(x.t, x.v, yi.v)
	}
	if isSym(y) {
		switch y := y.(type) {
		case symv:
			return teq(toTerm(x), y.t)
		}
	}
	return constBool(equalsConcrete(t, x, y))
}

// ---------------------------------------------------------------- indexing

// symElemPtr is the address of element idx (symbolic) of a slice/array of scalars.
type symElemPtr struct {
	elems []value
	idx   symv
}

func (p symElemPtr) load() value { return symIndexValue(array(p.elems), p.idx) }

func (p symElemPtr) concrete() *value {
	i := asInt64(concretizeValue(p.idx))
	return &p.elems[i]
}

func isScalarValue(v value) bool {
	switch v.(type) {
	case symv, bool, int, int8, int16, int32, int64, uint, uint8, uint16, uint32, uint64, uintptr:
		return true
	}
	return false
}

func inBoundsTerm(idx symv, n int) *term {
	bits, signed := kindBits(idx.kind)
	w := resize(idx.t, 64, signed)
	_ = bits
	nn := constBV(uint64(n), 64)
	if signed {
		return tand(mk("bvsge", 0, w, constBV(0, 64)), mk("bvslt", 0, w, nn))
	}
	return mk("bvult", 0, w, nn)
}

// symIndexValue returns x[idx] for symbolic idx: an ite chain over scalar
// elements after an in-bounds branch (out of bounds = Go's run-time panic).
func symIndexValue(x value, idx symv) value {
	var elems []value
	switch x := x.(type) {
	case array:
		elems = x
	case []value:
		elems = x
	case symstr:
		elems = x
	case string:
		elems = toSymstr(x)
	default:
		panic(fmt.Sprintf("symIndexValue: %T", x))
	}
	if !ex.branch(inBoundsTerm(idx, len(elems))) {
		panic(fmt.Sprintf("runtime error: index out of range [sym] with length %d", len(elems)))
	}
	allScalar := true
	for _, e := range elems {
		if !isScalarValue(e) {
			allScalar = false
			break
		}
	}
	if !allScalar || len(elems) > 512 {
		i := asInt64(concretizeValue(idx))
		return elems[i]
	}
	bits, _ := kindBits(idx.kind)
	k := kindOfValue(elems[0])
	res := toTerm(elems[len(elems)-1])
	for i := len(elems) - 2; i >= 0; i-- {
		res = tite(teq(idx.t, constBV(uint64(i), bits)), toTerm(elems[i]), res)
	}
	return wrap(res, k)
}

type symstrIter struct {
	s symstr
	i int
}

func (it *symstrIter) next() tuple {
	okv := make(tuple, 3)
	if it.i >= len(it.s) {
		okv[0] = false
		return okv
	}
	okv[0] = true
	okv[1] = it.i
	b := it.s[it.i]
	ascii := false
	switch b := b.(type) {
	case uint8:
		if b < 0x80 {
			okv[2] = rune(b)
			ascii = true
		}
	case symv:
		if ex.branch(mk("bvult", 0, b.t, constBV(0x80, 8))) {
			okv[2] = symConvInt(b, types.Int32)
			ascii = true
		}
	}
	if ascii {
		it.i++
		return okv
	}
	// general case: the real utf8.DecodeRuneInString on the rest of the string
	r := callByName("unicode/utf8", "DecodeRuneInString", []value{normStr(it.s[it.i:])}).(tuple)
	okv[2] = r[0]
	it.i += int(asInt64(r[1]))
	return okv
}

// callByName calls a package-level function of the target program.
func callByName(pkgPath, name string, args []value) value {
	pkg := theInterp.prog.ImportedPackage(pkgPath)
	if pkg == nil {
		panic(pathAbort{"unsupported", "package not loaded: " + pkgPath})
	}
	fn := pkg.Func(name)
	if fn == nil {
		panic(pathAbort{"unsupported", "function not found: " + pkgPath + "." + name})
	}
	return call(theInterp, nil, token.NoPos, fn, args)
}

// symRuneToString implements string(r) for a symbolic rune.
func symRuneToString(x symv) value {
	r := resize(x.t, 32, true)
	c := func(v uint64) *term { return constBV(v, 32) }
	b8 := func(t *term) value { return wrap(resize(t, 8, false), types.Uint8) }
	shr := func(t *term, n uint64) *term { return mk("bvlshr", 32, t, c(n)) }
	and := func(t *term, m uint64) *term { return mk("bvand", 32, t, c(m)) }
	or := func(t *term, m uint64) *term { return mk("bvor", 32, t, c(m)) }
	if ex.branch(mk("bvult", 0, r, c(0x80))) {
		return normStr(symstr{b8(r)})
	}
	if ex.branch(mk("bvult", 0, r, c(0x800))) {
		return normStr(symstr{b8(or(shr(r, 6), 0xC0)), b8(or(and(r, 0x3F), 0x80))})
	}
	invalid := tor(mk("bvugt", 0, r, c(0x10FFFF)), tand(mk("bvuge", 0, r, c(0xD800)), mk("bvule", 0, r, c(0xDFFF))))
	if ex.branch(invalid) {
		return "�"
	}
	if ex.branch(mk("bvult", 0, r, c(0x10000))) {
		return normStr(symstr{b8(or(shr(r, 12), 0xE0)), b8(or(and(shr(r, 6), 0x3F), 0x80)), b8(or(and(r, 0x3F), 0x80))})
	}
	return normStr(symstr{b8(or(shr(r, 18), 0xF0)), b8(or(and(shr(r, 12), 0x3F), 0x80)), b8(or(and(shr(r, 6), 0x3F), 0x80)), b8(or(and(r, 0x3F), 0x80))})
}

func symConv(ut_dst, ut_src types.Type, x value) (value, bool) {
	switch x := x.(type) {
	case symv:
		if b, ok := ut_dst.(*types.Basic); ok {
			if b.Kind() == types.String {
				return symRuneToString(x), true
			}
			if b.Info()&types.IsInteger != 0 {
				return symConvInt(x, b.Kind()), true
			}
			if b.Info()&types.IsFloat != 0 {
				// floats are never symbolic: case split
				return conv(ut_dst, ut_src, concretizeValue(x)), true
			}
		}
		panic(fmt.Sprintf("symConv: symv -> %s", ut_dst))
	case symstr:
		switch d := ut_dst.(type) {
		case *types.Basic:
			if d.Kind() == types.String {
				return x, true
			}
		case *types.Slice:
			switch d.Elem().Underlying().(*types.Basic).Kind() {
			case types.Byte:
				r := make([]value, len(x))
				copy(r, x)
				return r, true
			case types.Rune:
				var r []value
				it := &symstrIter{s: x}
				for {
					t := it.next()
					if !t[0].(bool) {
						break
					}
					r = append(r, t[2])
				}
				return r, true
			}
		}
		panic(fmt.Sprintf("symConv: symstr -> %s", ut_dst))
	case []value:
		if d, ok := ut_dst.(*types.Basic); ok && d.Kind() == types.String {
			if sl, ok := ut_src.(*types.Slice); ok {
				switch sl.Elem().Underlying().(*types.Basic).Kind() {
				case types.Byte:
					r := make(symstr, len(x))
					copy(r, x)
					return normStr(r), true
				case types.Rune:
					anySym := false
					for _, e := range x {
						if _, ok := e.(symv); ok {
							anySym = true
						}
					}
					if anySym {
						var r symstr
						for _, e := range x {
							switch e := e.(type) {
							case symv:
								r = append(r, toSymstr(symRuneToString(e))...)
							default:
								r = append(r, toSymstr(string(e.(int32)))...)
							}
						}
						return normStr(r), true
					}
				}
			}
		}
	}
	return nil, false
}
