// Copyright 2013 The Go Authors. All rights reserved.
// Use of this source code is governed by a BSD-style
// license that can be found in the LICENSE file.

package interp

// Values
//
// All interpreter values are "boxed" in the empty interface, value.
// The range of possible dynamic types within value are:
//
// - bool
// - numbers (all built-in int/float/complex types are distinguished)
// - string
// - map[value]value --- maps for which  usesBuiltinMap(keyType)
//   *hashmap        --- maps for which !usesBuiltinMap(keyType)
// - chan value
// - []value --- slices
// - iface --- interfaces.
// - structure --- structs.  Fields are ordered and accessed by numeric indices.
// - array --- arrays.
// - *value --- pointers.  Careful: *value is a distinct type from *array etc.
// - *ssa.Function \
//   *ssa.Builtin   } --- functions.  A nil 'func' is always of type *ssa.Function.
//   *closure      /
// - tuple --- as returned by Return, Next, "value,ok" modes, etc.
// - iter --- iterators from 'range' over map or string.
// - bad --- a poison pill for locals that have gone out of scope.
// - rtype -- the interpreter's concrete implementation of reflect.Type
// - **deferred -- the address of a frame's defer stack for a Defer._Stack.
//
// Note that nil is not on this list.
//
// Pay close attention to whether or not the dynamic type is a pointer.
// The compiler cannot help you since value is an empty interface.

import (
	"bytes"
	"fmt"
	"go/types"
	"io"
	"strings"
	"sync"
	"unsafe"

	"golang.org/x/tools/go/ssa"
	"golang.org/x/tools/go/types/typeutil"
)

type value interface{}

type tuple []value

type array []value

type iface struct {
	t types.Type // never an "untyped" type
	v value
}

type structure []value

// For map, array, *array, slice, string or channel.
type iter interface {
	// next returns a Tuple (key, value, ok).
	// key and value are unaliased, e.g. copies of the sequence element.
	next() tuple
}

type closure struct {
	Fn  *ssa.Function
	Env []value
}

type bad struct{}

type rtype struct {
	t types.Type
}

// Hash functions and equivalence relation:

// hashString computes the FNV hash of s.
func hashString(s string) int {
	var h uint32
	for i := 0; i < len(s); i++ {
		h ^= uint32(s[i])
		h *= 16777619
	}
	return int(h)
}

var (
	mu     sync.Mutex
	hasher = typeutil.MakeHasher()
)

// hashType returns a hash for t such that
// types.Identical(x, y) => hashType(x) == hashType(y).
func hashType(t types.Type) int {
	return int(hasher.Hash(t))
}

// usesBuiltinMap returns true if the built-in hash function and
// equivalence relation for type t are consistent with those of the
// interpreter's representation of type t.  Such types are: all basic
// types (bool, numbers, string), pointers and channels.
//
// usesBuiltinMap returns false for types that require a custom map
// implementation: interfaces, arrays and structs.
//
// Panic ensues if t is an invalid map key type: function, map or slice.
func usesBuiltinMap(t types.Type) bool {
	switch t := t.(type) {
	case *types.Basic, *types.Chan, *types.Pointer:
		return true
	case *types.Named, *types.Alias:
		return usesBuiltinMap(t.Underlying())
	case *types.Interface, *types.Array, *types.Struct:
		return false
	}
	panic(fmt.Sprintf("invalid map key type: %T", t))
}

func (x array) eq(t types.Type, _y interface{}) bool {
	y := _y.(array)
	tElt := t.Underlying().(*types.Array).Elem()
	for i, xi := range x {
		if !equals(tElt, xi, y[i]) {
			return false
		}
	}
	return true
}

func (x array) hash(t types.Type) int {
	h := 0
	tElt := t.Underlying().(*types.Array).Elem()
	for _, xi := range x {
		h += hash(t, tElt, xi)
	}
	return h
}

func (x structure) eq(t types.Type, _y interface{}) bool {
	y := _y.(structure)
	tStruct := t.Underlying().(*types.Struct)
	for i, n := 0, tStruct.NumFields(); i < n; i++ {
		if f := tStruct.Field(i); f.Name() != "_" {
			if !equals(f.Type(), x[i], y[i]) {
				return false
			}
		}
	}
	return true
}

func (x structure) hash(t types.Type) int {
	tStruct := t.Underlying().(*types.Struct)
	h := 0
	for i, n := 0, tStruct.NumFields(); i < n; i++ {
		if f := tStruct.Field(i); f.Name() != "_" {
			h += hash(t, f.Type(), x[i])
		}
	}
	return h
}

// nil-tolerant variant of types.Identical.
func sameType(x, y types.Type) bool {
	if x == nil {
		return y == nil
	}
	return y != nil && types.Identical(x, y)
}

func (x iface) eq(t types.Type, _y interface{}) bool {
	y := _y.(iface)
	return sameType(x.t, y.t) && (x.t == nil || equals(x.t, x.v, y.v))
}

func (x iface) hash(outer types.Type) int {
	return hashType(x.t)*8581 + hash(outer, x.t, x.v)
}

func (x rtype) hash(_ types.Type) int {
	return hashType(x.t)
}

func (x rtype) eq(_ types.Type, y interface{}) bool {
	return types.Identical(x.t, y.(rtype).t)
}

// equals returns true iff x and y are equal according to Go's
// linguistic equivalence relation for type t.
// In a well-typed program, the dynamic types of x and y are
// guaranteed equal.
func equals(t types.Type, x, y value) bool {
	x, y = forceDeep(x), forceDeep(y)
	if hasSym(x) || hasSym(y) {
		return ex.branch(eqTerm(t, x, y))
	}
	return equalsConcrete(t, x, y)
}

func equalsConcrete(t types.Type, x, y value) bool {
	switch x := x.(type) {
	case bool:
		return x == y.(bool)
	case int:
		return x == y.(int)
	case int8:
		return x == y.(int8)
	case int16:
		return x == y.(int16)
	case int32:
		return x == y.(int32)
	case int64:
		return x == y.(int64)
	case uint:
		return x == y.(uint)
	case uint8:
		return x == y.(uint8)
	case uint16:
		return x == y.(uint16)
	case uint32:
		return x == y.(uint32)
	case uint64:
		return x == y.(uint64)
	case uintptr:
		return x == y.(uintptr)
	case float32:
		return x == y.(float32)
	case float64:
		return x == y.(float64)
	case complex64:
		return x == y.(complex64)
	case complex128:
		return x == y.(complex128)
	case string:
		return x == y.(string)
	case *value:
		return x == y.(*value)
	case *chanv:
		return x == y.(*chanv)
	case structure:
		return x.eq(t, y)
	case array:
		return x.eq(t, y)
	case iface:
		return x.eq(t, y)
	case rtype:
		return x.eq(t, y)
	}

	// Since map, func and slice don't support comparison, this
	// case is only reachable if one of x or y is literally nil
	// (handled in eqnil) or via interface{} values.
	panic(fmt.Sprintf("comparing uncomparable type %s", t))
}

// Returns an integer hash of x such that equals(x, y) => hash(x) == hash(y).
// The outer type is used only for the "unhashable" panic message.
func hash(outer, t types.Type, x value) int {
	x = forceDeep(x)
	switch x := x.(type) {
	case bool:
		if x {
			return 1
		}
		return 0
	case int:
		return x
	case int8:
		return int(x)
	case int16:
		return int(x)
	case int32:
		return int(x)
	case int64:
		return int(x)
	case uint:
		return int(x)
	case uint8:
		return int(x)
	case uint16:
		return int(x)
	case uint32:
		return int(x)
	case uint64:
		return int(x)
	case uintptr:
		return int(x)
	case float32:
		return int(x)
	case float64:
		return int(x)
	case complex64:
		return int(real(x))
	case complex128:
		return int(real(x))
	case string:
		return hashString(x)
	case *value:
		return int(uintptr(unsafe.Pointer(x)))
	case *chanv:
		return int(uintptr(unsafe.Pointer(x)))
	case structure:
		return x.hash(t)
	case array:
		return x.hash(t)
	case iface:
		return x.hash(t)
	case rtype:
		return x.hash(t)
	}
	panic(fmt.Sprintf("unhashable type %v", outer))
}

// reflect.Value struct values don't have a fixed shape, since the
// payload can be a scalar or an aggregate depending on the instance.
// So store (and load) can't simply use recursion over the shape of the
// rhs value, or the lhs, to copy the value; we need the static type
// information.  (We can't make reflect.Value a new basic data type
// because its "structness" is exposed to Go programs.)

// load returns the value of type T in *addr.
func load(T types.Type, addr *value) value {
	switch T := T.Underlying().(type) {
	case *types.Struct:
		v := (*addr).(structure)
		a := make(structure, len(v))
		for i := range a {
			a[i] = load(T.Field(i).Type(), &v[i])
		}
		return a
	case *types.Array:
		v := (*addr).(array)
		a := make(array, len(v))
		for i := range a {
			a[i] = load(T.Elem(), &v[i])
		}
		return a
	default:
		return *addr
	}
}

// store stores value v of type T into *addr.
func store(T types.Type, addr *value, v value) {
	switch T := T.Underlying().(type) {
	case *types.Struct:
		lhs := (*addr).(structure)
		rhs := v.(structure)
		for i := range lhs {
			store(T.Field(i).Type(), &lhs[i], rhs[i])
		}
	case *types.Array:
		lhs := (*addr).(array)
		rhs := v.(array)
		for i := range lhs {
			store(T.Elem(), &lhs[i], rhs[i])
		}
	default:
		*addr = v
	}
}

// Prints in the style of built-in println.
// (More or less; in gc println is actually a compiler intrinsic and
// can distinguish println(1) from println(interface{}(1)).)
func writeValue(buf *bytes.Buffer, v value) {
	switch v := v.(type) {
	case nil, bool, int, int8, int16, int32, int64, uint, uint8, uint16, uint32, uint64, uintptr, float32, float64, complex64, complex128, string:
		fmt.Fprintf(buf, "%v", v)

	case *omap:
		buf.WriteString("map[")
		sep := ""
		for _, s := range v.liveSlots() {
			buf.WriteString(sep)
			sep = " "
			writeValue(buf, v.keys[s])
			buf.WriteString(":")
			writeValue(buf, v.vals[s])
		}
		buf.WriteString("]")

	case *chanv:
		fmt.Fprintf(buf, "%p", v) // (an address)

	case *value:
		if v == nil {
			buf.WriteString("<nil>")
		} else {
			fmt.Fprintf(buf, "%p", v)
		}

	case iface:
		fmt.Fprintf(buf, "(%s, ", v.t)
		writeValue(buf, v.v)
		buf.WriteString(")")

	case structure:
		buf.WriteString("{")
		for i, e := range v {
			if i > 0 {
				buf.WriteString(" ")
			}
			writeValue(buf, e)
		}
		buf.WriteString("}")

	case array:
		buf.WriteString("[")
		for i, e := range v {
			if i > 0 {
				buf.WriteString(" ")
			}
			writeValue(buf, e)
		}
		buf.WriteString("]")

	case []value:
		buf.WriteString("[")
		for i, e := range v {
			if i > 0 {
				buf.WriteString(" ")
			}
			writeValue(buf, e)
		}
		buf.WriteString("]")

	case *ssa.Function, *ssa.Builtin, *closure:
		fmt.Fprintf(buf, "%p", v) // (an address)

	case rtype:
		buf.WriteString(v.t.String())

	case tuple:
		// Unreachable in well-formed Go programs
		buf.WriteString("(")
		for i, e := range v {
			if i > 0 {
				buf.WriteString(", ")
			}
			writeValue(buf, e)
		}
		buf.WriteString(")")

	default:
		fmt.Fprintf(buf, "<%T>", v)
	}
}

// Implements printing of Go values in the style of built-in println.
func toString(v value) string {
	var b bytes.Buffer
	writeValue(&b, v)
	return b.String()
}

// ------------------------------------------------------------------------
// Iterators

type stringIter struct {
	*strings.Reader
	i int
}

func (it *stringIter) next() tuple {
	okv := make(tuple, 3)
	ch, n, err := it.ReadRune()
	ok := err != io.EOF
	okv[0] = ok
	if ok {
		okv[1] = it.i
		okv[2] = ch
	}
	it.i += n
	return okv
}
