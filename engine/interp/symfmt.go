package interp

// A model of package fmt's printing functions over interpreter values.
// Exact for booleans, integers, floats, strings, errors, Stringers and
// slices/arrays/structs/maps/pointers-to-struct of those with the verbs
// %v %+v %s %q %d %x %X %c %t %T %w and flags/width/precision on scalars.
// A *symbolic* scalar is printed as a havoc placeholder (one fresh
// unconstrained byte between brackets): text containing it never equals a
// concrete expectation by accident, and anything that depends on it cannot
// be replayed natively and is reported as unconfirmed.

import (
	"fmt"
	"go/types"
	"sort"
	"strings"

	"golang.org/x/tools/go/ssa"
)

type fmtState struct {
	fr      *frame
	out     symstr
	wrapped []iface
	depth   int
}

func (f *fmtState) str(s string) { f.out = append(f.out, toSymstr(s)...) }

func (f *fmtState) placeholder() {
	t := mkVar(fmt.Sprintf("fmt_havoc!%d", len(ex.vars)+1), 8)
	ex.vars = append(ex.vars, t)
	ex.noteStub("fmt: symbolic scalar printed as havoc placeholder")
	f.str("⟦")
	f.out = append(f.out, symv{t, types.Uint8})
	f.str("⟧")
}

func methodNamed(fr *frame, t types.Type, name string, nparams int) *ssa.Function {
	if t == nil {
		return nil
	}
	m := methodByName(fr, t, name)
	if m == nil || m.Signature.Params().Len() != nparams || m.Signature.Results().Len() != 1 {
		return nil
	}
	if b, ok := m.Signature.Results().At(0).Type().Underlying().(*types.Basic); !ok || b.Kind() != types.String {
		return nil
	}
	return m
}

func isNilValue(v value) bool {
	switch v := v.(type) {
	case *value:
		return v == nil
	case iface:
		return v.t == nil
	case []value:
		return v == nil
	case *omap:
		return v == nil
	case nil:
		return true
	}
	return false
}

// spec is a parsed % directive.
type fmtSpec struct {
	flags string
	width string
	prec  string
	verb  byte
}

func (s fmtSpec) directive(verb byte) string {
	d := "%" + s.flags + s.width
	if s.prec != "" {
		d += "." + s.prec
	}
	return d + string(verb)
}

func nativeScalar(t types.Type, v value) (interface{}, bool) {
	switch v := v.(type) {
	case bool, int, int8, int16, int32, int64, uint, uint8, uint16, uint32, uint64, uintptr, float32, float64, complex64, complex128, string:
		return v, true
	}
	return nil, false
}

// formatValue appends v (of static/dynamic type t) formatted with spec.
func (f *fmtState) formatValue(t types.Type, v value, sp fmtSpec, top bool) {
	v = unlazy(v)
	f.depth++
	defer func() { f.depth-- }()
	if f.depth > 12 {
		f.str("...")
		return
	}
	verb := sp.verb
	if it, ok := v.(iface); ok {
		if it.t == nil {
			if verb == 'v' || verb == 's' {
				f.str("<nil>")
			} else {
				f.str("%!" + string(verb) + "(<nil>)")
			}
			return
		}
		t, v = it.t, unlazy(it.v)
	}
	if verb == 'T' {
		f.str(types.TypeString(t, nil))
		return
	}
	// Error / String methods for the textual verbs
	if verb == 'v' || verb == 's' || verb == 'q' {
		if !(isNilValue(v) && !isPtrType(t)) {
			for _, name := range []string{"Error", "String"} {
				if m := methodNamed(f.fr, t, name, 0); m != nil {
					if isNilValue(v) && isPtrType(t) {
						f.str("<nil>")
						return
					}
					s := call(f.fr.i, f.fr, 0, m, []value{v})
					f.formatString(s, sp)
					return
				}
			}
		}
	}
	switch x := v.(type) {
	case symv:
		if x.kind == types.Bool {
			// a symbolic bool has two printed forms: case split is cheap
			b := ex.branch(x.t)
			f.str(fmt.Sprintf(sp.directive(verb), b))
			return
		}
		f.placeholder()
		return
	case symstr:
		f.formatString(x, sp)
		return
	case string:
		f.formatString(x, sp)
		return
	}
	if nv, ok := nativeScalar(t, v); ok {
		f.str(fmt.Sprintf(sp.directive(verb), nv))
		return
	}
	plus := strings.Contains(sp.flags, "+")
	switch x := v.(type) {
	case *value:
		if x == nil {
			f.str("<nil>")
			return
		}
		if pt, ok := t.Underlying().(*types.Pointer); ok && top {
			switch pt.Elem().Underlying().(type) {
			case *types.Struct, *types.Array, *types.Slice, *types.Map:
				f.str("&")
				f.formatValue(pt.Elem(), *x, sp, false)
				return
			}
		}
		f.str("0xc000000000")
	case []value:
		var et types.Type
		if st, ok := t.Underlying().(*types.Slice); ok {
			et = st.Elem()
		}
		if et != nil && isByteType(et) && (verb == 's' || verb == 'q' || verb == 'x') {
			f.formatString(normStr(append(symstr{}, x...)), sp)
			return
		}
		f.str("[")
		for i, e := range x {
			if i > 0 {
				f.str(" ")
			}
			f.formatValue(et, e, sp, false)
		}
		f.str("]")
	case array:
		var et types.Type
		if at, ok := t.Underlying().(*types.Array); ok {
			et = at.Elem()
		}
		f.str("[")
		for i, e := range x {
			if i > 0 {
				f.str(" ")
			}
			f.formatValue(et, e, sp, false)
		}
		f.str("]")
	case structure:
		st, _ := t.Underlying().(*types.Struct)
		f.str("{")
		for i, e := range x {
			if i > 0 {
				f.str(" ")
			}
			var ft types.Type
			if st != nil && i < st.NumFields() {
				ft = st.Field(i).Type()
				if plus {
					f.str(st.Field(i).Name() + ":")
				}
			}
			f.formatValue(ft, e, sp, false)
		}
		f.str("}")
	case *omap:
		var kt, vt types.Type
		if mt, ok := t.Underlying().(*types.Map); ok {
			kt, vt = mt.Key(), mt.Elem()
		}
		type kv struct {
			k string
			s int
		}
		var kvs []kv
		for _, s := range x.liveSlots() {
			sub := &fmtState{fr: f.fr, depth: f.depth}
			sub.formatValue(kt, x.keys[s], fmtSpec{verb: 'v'}, false)
			kvs = append(kvs, kv{concretizeStr(normStr(sub.out)), s})
		}
		sort.Slice(kvs, func(i, j int) bool { return kvs[i].k < kvs[j].k })
		f.str("map[")
		for i, e := range kvs {
			if i > 0 {
				f.str(" ")
			}
			f.str(e.k + ":")
			f.formatValue(vt, x.vals[e.s], sp, false)
		}
		f.str("]")
	case *ssa.Function, *closure:
		f.str("0xfunc")
	case *chanv:
		f.str("0xchan")
	case rtype:
		f.str(x.t.String())
	default:
		f.str(fmt.Sprintf("<%T>", v))
	}
}

func isPtrType(t types.Type) bool {
	if t == nil {
		return false
	}
	_, ok := t.Underlying().(*types.Pointer)
	return ok
}

func isByteType(t types.Type) bool {
	b, ok := t.Underlying().(*types.Basic)
	return ok && b.Kind() == types.Uint8
}

func (f *fmtState) formatString(s value, sp fmtSpec) {
	if cs, ok := s.(string); ok {
		verb := sp.verb
		if verb != 's' && verb != 'q' && verb != 'x' && verb != 'X' && verb != 'v' {
			verb = 'v'
		}
		f.str(fmt.Sprintf(sp.directive(verb), cs))
		return
	}
	ss := toSymstr(s)
	switch {
	case sp.verb == 'q':
		// exact only when no byte needs escaping: havoc otherwise
		ex.noteStub("fmt: %q of symbolic string printed without escaping analysis")
		f.str("\"")
		f.out = append(f.out, ss...)
		f.str("\"")
	case sp.width == "" && sp.prec == "" && (sp.verb == 's' || sp.verb == 'v'):
		f.out = append(f.out, ss...)
	default:
		f.str(fmt.Sprintf(sp.directive(sp.verb), concretizeStr(ss)))
	}
}

// sprintf formats according to a (concrete) format string.
func (f *fmtState) sprintf(format value, args []value) {
	fs := concretizeStr(format)
	ai := 0
	for i := 0; i < len(fs); i++ {
		c := fs[i]
		if c != '%' {
			f.out = append(f.out, c)
			continue
		}
		i++
		if i >= len(fs) {
			f.str("%!(NOVERB)")
			break
		}
		var sp fmtSpec
		for i < len(fs) && strings.IndexByte("+-# 0", fs[i]) >= 0 {
			sp.flags += string(fs[i])
			i++
		}
		star := func() string {
			if ai < len(args) {
				a := args[ai]
				ai++
				if it, ok := a.(iface); ok {
					a = it.v
				}
				return fmt.Sprint(asInt64(concretizeValue(a)))
			}
			return ""
		}
		if i < len(fs) && fs[i] == '*' {
			sp.width = star()
			i++
		}
		for i < len(fs) && fs[i] >= '0' && fs[i] <= '9' {
			sp.width += string(fs[i])
			i++
		}
		if i < len(fs) && fs[i] == '.' {
			i++
			sp.prec = ""
			if i < len(fs) && fs[i] == '*' {
				sp.prec = star()
				i++
			}
			for i < len(fs) && fs[i] >= '0' && fs[i] <= '9' {
				sp.prec += string(fs[i])
				i++
			}
			if sp.prec == "" {
				sp.prec = "0"
			}
		}
		if i >= len(fs) {
			f.str("%!(NOVERB)")
			break
		}
		sp.verb = fs[i]
		if sp.verb == '%' {
			f.str("%")
			continue
		}
		if ai >= len(args) {
			f.str("%!" + string(sp.verb) + "(MISSING)")
			continue
		}
		a := args[ai]
		ai++
		if sp.verb == 'w' {
			if it, ok := a.(iface); ok && it.t != nil {
				f.wrapped = append(f.wrapped, it)
			}
			sp.verb = 'v'
		}
		f.formatValue(nil, a, sp, true)
	}
	if ai < len(args) {
		f.str("%!(EXTRA ")
		for k := ai; k < len(args); k++ {
			if k > ai {
				f.str(", ")
			}
			f.formatValue(nil, args[k], fmtSpec{verb: 'T'}, true)
			f.str("=")
			f.formatValue(nil, args[k], fmtSpec{verb: 'v'}, true)
		}
		f.str(")")
	}
}

func isStringArg(a value) bool {
	it, ok := a.(iface)
	if !ok || it.t == nil {
		return false
	}
	b, ok := it.t.Underlying().(*types.Basic)
	return ok && b.Info()&types.IsString != 0
}

// sprint implements Sprint (spaces between operands when neither is a string)
// and Sprintln (always spaces, trailing newline).
func (f *fmtState) sprint(args []value, ln bool) {
	for k, a := range args {
		if k > 0 && (ln || (!isStringArg(a) && !isStringArg(args[k-1]))) {
			f.str(" ")
		}
		f.formatValue(nil, a, fmtSpec{verb: 'v'}, true)
	}
	if ln {
		f.str("\n")
	}
}

func newError(fr *frame, msg value) value {
	ep := fr.i.prog.ImportedPackage("errors").Type("errorString").Type()
	p := new(value)
	*p = structure{msg}
	return iface{t: types.NewPointer(ep), v: p}
}

func writeTo(fr *frame, w value, s value) value {
	wi := w.(iface)
	if wi.t == nil {
		panic("runtime error: invalid memory address or nil pointer dereference")
	}
	m := methodByName(fr, wi.t, "Write")
	b := make([]value, 0)
	b = append(b, toSymstr(s)...)
	return call(fr.i, fr, 0, m, []value{wi.v, b})
}

func init() {
	externals["fmt.Sprintf"] = func(fr *frame, args []value) value {
		f := &fmtState{fr: fr}
		f.sprintf(args[0], args[1].([]value))
		return normStr(f.out)
	}
	externals["fmt.Sprint"] = func(fr *frame, args []value) value {
		f := &fmtState{fr: fr}
		f.sprint(args[0].([]value), false)
		return normStr(f.out)
	}
	externals["fmt.Sprintln"] = func(fr *frame, args []value) value {
		f := &fmtState{fr: fr}
		f.sprint(args[0].([]value), true)
		return normStr(f.out)
	}
	externals["fmt.Fprintf"] = func(fr *frame, args []value) value {
		f := &fmtState{fr: fr}
		f.sprintf(args[1], args[2].([]value))
		return writeTo(fr, args[0], normStr(f.out))
	}
	externals["fmt.Fprint"] = func(fr *frame, args []value) value {
		f := &fmtState{fr: fr}
		f.sprint(args[1].([]value), false)
		return writeTo(fr, args[0], normStr(f.out))
	}
	externals["fmt.Fprintln"] = func(fr *frame, args []value) value {
		f := &fmtState{fr: fr}
		f.sprint(args[1].([]value), true)
		return writeTo(fr, args[0], normStr(f.out))
	}
	discard := func(fr *frame, args []value) value { return tuple{0, iface{}} }
	externals["fmt.Printf"] = discard
	externals["fmt.Println"] = discard
	externals["fmt.Print"] = discard
	externals["fmt.Errorf"] = func(fr *frame, args []value) value {
		f := &fmtState{fr: fr}
		f.sprintf(args[0], args[1].([]value))
		msg := normStr(f.out)
		fmtpkg := fr.i.prog.ImportedPackage("fmt")
		switch len(f.wrapped) {
		case 0:
			return newError(fr, msg)
		case 1:
			T := fmtpkg.Type("wrapError").Type()
			p := new(value)
			*p = structure{msg, f.wrapped[0]}
			return iface{t: types.NewPointer(T), v: p}
		default:
			T := fmtpkg.Type("wrapErrors").Type()
			errs := make([]value, len(f.wrapped))
			for k, w := range f.wrapped {
				errs[k] = w
			}
			p := new(value)
			*p = structure{msg, errs}
			return iface{t: types.NewPointer(T), v: p}
		}
	}
	externals["errors.New"] = func(fr *frame, args []value) value { return newError(fr, args[0]) }
}
