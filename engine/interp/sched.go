package interp

// Cooperative scheduler for interpreted goroutines, channels and the parts of
// package sync the target needs. Exactly one interpreted goroutine runs at a
// time; control changes hands only at blocking operations and at
// verifrt.Yield(). When schedule exploration is enabled the next goroutine is
// an explorer choice at each of those points; otherwise it is the runnable
// goroutine with the lowest id (the running one continues if it can).

import (
	"fmt"
	"go/token"
	"go/types"
	"strconv"

	"golang.org/x/tools/go/ssa"
)

type goroutineKilled struct{}

type gor struct {
	id     int
	wake   chan struct{}
	exited chan struct{}
	done   bool
	ready  func() bool // nil = runnable
	killed bool
}

type scheduler struct {
	gs      []*gor
	cur     *gor
	failure interface{} // panic value of a non-main goroutine
	explore bool
	locks   map[*value]*lockState
	wgs     map[*value]*int
	steps   int
}

type lockState struct {
	writer  bool
	readers int
}

var sched *scheduler

func newScheduler() *scheduler {
	s := &scheduler{locks: map[*value]*lockState{}, wgs: map[*value]*int{}}
	main := &gor{id: 0, wake: make(chan struct{}, 1), exited: make(chan struct{})}
	s.gs = []*gor{main}
	s.cur = main
	return s
}

// spawn registers a new goroutine; it starts running only when scheduled.
func (s *scheduler) spawn(i *interpreter, fn value, args []value) {
	g := &gor{id: len(s.gs), wake: make(chan struct{}, 1), exited: make(chan struct{})}
	s.gs = append(s.gs, g)
	go func() {
		defer close(g.exited)
		<-g.wake
		if g.killed {
			g.done = true
			return
		}
		defer func() {
			g.done = true
			if r := recover(); r != nil {
				if _, ok := r.(goroutineKilled); ok {
					return
				}
				if s.failure == nil {
					s.failure = r
				}
			}
			if !g.killed {
				s.handoff(nil)
			}
		}()
		call(i, nil, 0, fn, args)
	}()
}

func (s *scheduler) runnable() []*gor {
	var r []*gor
	for _, g := range s.gs {
		if g.done {
			continue
		}
		if g.ready == nil || g.ready() {
			r = append(r, g)
		}
	}
	return r
}

// pick chooses the next goroutine among the runnable ones.
func (s *scheduler) pick(cands []*gor, preferCur bool) *gor {
	if len(cands) == 1 {
		return cands[0]
	}
	if s.explore && schedBudgetLeft() {
		// the default (no deviation) is the goroutine the deterministic scheduler would take
		def := 0
		if preferCur {
			for k, g := range cands {
				if g == s.cur {
					def = k
				}
			}
		}
		c := ex.choice(len(cands))
		// choice 0 is the default; the others are deviations, counted against the optional bound
		idx := c
		if c == 0 {
			idx = def
		} else if c <= def {
			idx = c - 1
		}
		if idx != def {
			ex.schedDeviations++
		}
		return cands[idx]
	}
	if preferCur {
		for _, g := range cands {
			if g == s.cur {
				return g
			}
		}
	}
	return cands[0]
}

// handoff transfers control from the current goroutine (which is done, or
// nil-safe) to another one. Used when a goroutine ends.
func (s *scheduler) handoff(_ *gor) {
	if s.failure != nil {
		// wake main so that it reports the failure
		m := s.gs[0]
		s.cur = m
		m.wake <- struct{}{}
		return
	}
	cands := s.runnable()
	if len(cands) == 0 {
		// everything else is blocked: let main discover the deadlock
		m := s.gs[0]
		if !m.done {
			s.failure = "fatal error: all goroutines are asleep - deadlock!"
			s.cur = m
			m.wake <- struct{}{}
		}
		return
	}
	next := s.pick(cands, false)
	s.cur = next
	next.wake <- struct{}{}
}

// block suspends the current goroutine until ready() holds.
func (s *scheduler) block(ready func() bool) {
	g := s.cur
	g.ready = ready
	for {
		if s.failure != nil && g.id == 0 {
			f := s.failure
			s.failure = nil
			g.ready = nil
			panic(f)
		}
		cands := s.runnable()
		if len(cands) == 0 {
			g.ready = nil
			panic("fatal error: all goroutines are asleep - deadlock!")
		}
		next := s.pick(cands, true)
		if next == g {
			g.ready = nil
			return
		}
		s.cur = next
		next.wake <- struct{}{}
		<-g.wake
		if g.killed {
			panic(goroutineKilled{})
		}
		if s.failure != nil && g.id == 0 {
			continue
		}
		if g.ready == nil || g.ready() {
			// we were chosen by whoever woke us
			g.ready = nil
			return
		}
	}
}

// yield is a scheduling point at which the current goroutine stays runnable.
func (s *scheduler) yield() {
	s.steps++
	s.block(func() bool { return true })
}

// killAll terminates every goroutine other than main (end of a path).
func (s *scheduler) killAll() {
	for _, g := range s.gs[1:] {
		select {
		case <-g.exited:
			continue
		default:
		}
		g.killed = true
		g.wake <- struct{}{}
		<-g.exited
	}
}

// ---------------------------------------------------------------- channels

type sendItem struct {
	v    value
	done bool
}

type chanv struct {
	buf         []value
	cap         int
	closed      bool
	sendq       []*sendItem
	recvWaiting int
	elem        types.Type
}

func chanOf(v value) *chanv {
	switch c := v.(type) {
	case *chanv:
		return c
	}
	panic(fmt.Sprintf("unsupported channel value %T", v))
}

func (c *chanv) recvReady() bool {
	return len(c.buf) > 0 || len(c.sendq) > 0 || c.closed
}

func (c *chanv) sendReady() bool {
	return c.closed || len(c.buf) < c.cap || (c.cap == 0 && c.recvWaiting > 0)
}

func (c *chanv) tryRecv() (value, bool, bool) {
	if len(c.buf) > 0 {
		v := c.buf[0]
		c.buf = c.buf[1:]
		if len(c.sendq) > 0 {
			it := c.sendq[0]
			c.sendq = c.sendq[1:]
			c.buf = append(c.buf, it.v)
			it.done = true
		}
		return v, true, true
	}
	if len(c.sendq) > 0 {
		it := c.sendq[0]
		c.sendq = c.sendq[1:]
		it.done = true
		return it.v, true, true
	}
	if c.closed {
		return zero(c.elem), false, true
	}
	return nil, false, false
}

func chanRecv(c *chanv) (value, bool) {
	if c == nil {
		sched.block(func() bool { return false })
	}
	for {
		if v, ok, done := c.tryRecv(); done {
			return v, ok
		}
		c.recvWaiting++
		sched.block(c.recvReady)
		c.recvWaiting--
	}
}

func chanSend(c *chanv, v value) {
	if c == nil {
		sched.block(func() bool { return false })
	}
	if c.closed {
		panic("send on closed channel")
	}
	if len(c.buf) < c.cap {
		c.buf = append(c.buf, v)
		return
	}
	it := &sendItem{v: v}
	c.sendq = append(c.sendq, it)
	sched.block(func() bool { return it.done || c.closed })
	if !it.done {
		panic("send on closed channel")
	}
}

func chanClose(c *chanv) {
	if c == nil {
		panic("close of nil channel")
	}
	if c.closed {
		panic("close of closed channel")
	}
	c.closed = true
}

// chanSelect implements ssa.Select.
func chanSelect(fr *frame, instr *ssa.Select) value {
	type cs struct {
		c    *chanv
		send bool
		v    value
	}
	cases := make([]cs, len(instr.States))
	for i, st := range instr.States {
		cases[i].c, _ = fr.get(st.Chan).(*chanv)
		if st.Dir == types.SendOnly {
			cases[i].send = true
			cases[i].v = fr.get(st.Send)
		}
	}
	readyIdx := func() []int {
		var r []int
		for i, c := range cases {
			if c.c == nil {
				continue
			}
			if c.send && c.c.sendReady() || !c.send && c.c.recvReady() {
				r = append(r, i)
			}
		}
		return r
	}
	var chosen int
	for {
		r := readyIdx()
		if len(r) > 0 {
			chosen = r[0]
			if sched.explore && len(r) > 1 {
				chosen = r[ex.choice(len(r))]
			}
			break
		}
		if !instr.Blocking {
			chosen = -1
			break
		}
		for _, c := range cases {
			if c.c != nil && !c.send {
				c.c.recvWaiting++
			}
		}
		sched.block(func() bool { return len(readyIdx()) > 0 })
		for _, c := range cases {
			if c.c != nil && !c.send {
				c.c.recvWaiting--
			}
		}
	}
	var recv value
	recvOk := false
	if chosen >= 0 {
		c := cases[chosen]
		if c.send {
			chanSend(c.c, c.v)
		} else {
			recv, recvOk = chanRecv(c.c)
		}
	}
	r := tuple{chosen, recvOk}
	for i, st := range instr.States {
		if st.Dir == types.RecvOnly {
			var v value
			if i == chosen && recvOk {
				v = recv
			} else {
				v = zero(st.Chan.Type().Underlying().(*types.Chan).Elem())
			}
			r = append(r, v)
		}
	}
	return r
}

// ---------------------------------------------------------------- package sync, sync/atomic, time

func ptrArg(v value) *value { return v.(*value) }

func (s *scheduler) lockOf(p *value) *lockState {
	l := s.locks[p]
	if l == nil {
		l = &lockState{}
		s.locks[p] = l
	}
	return l
}

func init() {
	lock := func(fr *frame, args []value) value {
		l := sched.lockOf(ptrArg(args[0]))
		if l.writer || l.readers > 0 {
			sched.block(func() bool { return !l.writer && l.readers == 0 })
		}
		l.writer = true
		return nil
	}
	unlock := func(fr *frame, args []value) value {
		l := sched.lockOf(ptrArg(args[0]))
		if !l.writer {
			panic("sync: unlock of unlocked mutex")
		}
		l.writer = false
		return nil
	}
	tryLock := func(fr *frame, args []value) value {
		l := sched.lockOf(ptrArg(args[0]))
		if l.writer || l.readers > 0 {
			return false
		}
		l.writer = true
		return true
	}
	externals["(*sync.Mutex).Lock"] = lock
	externals["(*sync.Mutex).Unlock"] = unlock
	externals["(*sync.Mutex).TryLock"] = tryLock
	externals["(*sync.RWMutex).Lock"] = lock
	externals["(*sync.RWMutex).Unlock"] = unlock
	externals["(*sync.RWMutex).RLock"] = func(fr *frame, args []value) value {
		l := sched.lockOf(ptrArg(args[0]))
		if l.writer {
			sched.block(func() bool { return !l.writer })
		}
		l.readers++
		return nil
	}
	externals["(*sync.RWMutex).RUnlock"] = func(fr *frame, args []value) value {
		l := sched.lockOf(ptrArg(args[0]))
		if l.readers <= 0 {
			panic("sync: RUnlock of unlocked RWMutex")
		}
		l.readers--
		return nil
	}
	externals["(*sync.WaitGroup).Add"] = func(fr *frame, args []value) value {
		p := ptrArg(args[0])
		c := sched.wgs[p]
		if c == nil {
			c = new(int)
			sched.wgs[p] = c
		}
		*c += int(asInt64(args[1]))
		if *c < 0 {
			panic("sync: negative WaitGroup counter")
		}
		return nil
	}
	externals["(*sync.WaitGroup).Done"] = func(fr *frame, args []value) value {
		p := ptrArg(args[0])
		c := sched.wgs[p]
		if c == nil || *c <= 0 {
			panic("sync: negative WaitGroup counter")
		}
		*c--
		return nil
	}
	externals["(*sync.WaitGroup).Wait"] = func(fr *frame, args []value) value {
		p := ptrArg(args[0])
		c := sched.wgs[p]
		if c != nil && *c > 0 {
			sched.block(func() bool { return *c == 0 })
		}
		return nil
	}
	// sync.Once keeps its state in the object itself (it must survive across paths
	// for package-level caches).
	externals["(*sync.Once).Do"] = func(fr *frame, args []value) value {
		p := ptrArg(args[0])
		st := (*p).(structure)
		// fields: _ noCopy, done atomic.Uint32, m Mutex
		done := st[1].(structure)
		if asInt64(done[len(done)-1]) != 0 {
			return nil
		}
		done[len(done)-1] = uint32(1)
		call(fr.i, fr, 0, args[1], nil)
		return nil
	}
	externals["sync.runtime_registerPoolCleanup"] = func(fr *frame, args []value) value { return nil }
	externals["sync.runtime_notifyListCheck"] = func(fr *frame, args []value) value { return nil }

	type atomicOp struct {
		name string
		kind types.BasicKind
	}
	for _, k := range []atomicOp{{"Int32", types.Int32}, {"Int64", types.Int64}, {"Uint32", types.Uint32}, {"Uint64", types.Uint64}, {"Uintptr", types.Uintptr}} {
		k := k
		externals["sync/atomic.Load"+k.name] = func(fr *frame, args []value) value { return *ptrArg(args[0]) }
		externals["sync/atomic.Store"+k.name] = func(fr *frame, args []value) value { *ptrArg(args[0]) = args[1]; return nil }
		externals["sync/atomic.Add"+k.name] = func(fr *frame, args []value) value {
			p := ptrArg(args[0])
			*p = binop(token.ADD, types.Typ[k.kind], *p, args[1])
			return *p
		}
		externals["sync/atomic.Swap"+k.name] = func(fr *frame, args []value) value {
			p := ptrArg(args[0])
			old := *p
			*p = args[1]
			return old
		}
		externals["sync/atomic.CompareAndSwap"+k.name] = func(fr *frame, args []value) value {
			p := ptrArg(args[0])
			if equals(types.Typ[k.kind], *p, args[1]) {
				*p = args[2]
				return true
			}
			return false
		}
	}
	// unsafe.Pointer cells (atomic.Pointer[T], atomic.Value internals)
	externals["sync/atomic.LoadPointer"] = func(fr *frame, args []value) value { return *ptrArg(args[0]) }
	externals["sync/atomic.StorePointer"] = func(fr *frame, args []value) value { *ptrArg(args[0]) = args[1]; return nil }
	externals["sync/atomic.SwapPointer"] = func(fr *frame, args []value) value {
		p := ptrArg(args[0])
		old := *p
		*p = args[1]
		return old
	}
	externals["sync/atomic.CompareAndSwapPointer"] = func(fr *frame, args []value) value {
		p := ptrArg(args[0])
		if equals(types.Typ[types.UnsafePointer], *p, args[1]) {
			*p = args[2]
			return true
		}
		return false
	}
	externals["runtime.Gosched"] = func(fr *frame, args []value) value { sched.yield(); return nil }
}

// Time is not observed by any checked property: the clock stands still, tickers
// and timers never fire.
func init() {
	zeroOf := func(fr *frame) value {
		res := fr.fn.Signature.Results()
		if res.Len() == 0 {
			return nil
		}
		return zero(res.At(0).Type())
	}
	for _, n := range []string{"time.Now", "time.Since", "time.Until", "time.runtimeNano", "time.now", "time.runtimeNow"} {
		n := n
		externals[n] = func(fr *frame, args []value) value {
			ex.noteStub("time: " + n + " returns the zero value")
			return zeroOf(fr)
		}
	}
	externals["time.Sleep"] = func(fr *frame, args []value) value { sched.yield(); return nil }
	neverChan := func(fr *frame) value {
		tt := fr.i.prog.ImportedPackage("time").Type("Time").Type()
		return &chanv{cap: 1, elem: tt}
	}
	newTimerLike := func(typeName string) externalFn {
		return func(fr *frame, args []value) value {
			ex.noteStub("time: " + typeName + " never fires")
			T := fr.i.prog.ImportedPackage("time").Type(typeName).Type()
			st := T.Underlying().(*types.Struct)
			v := zero(T).(structure)
			for k := 0; k < st.NumFields(); k++ {
				if st.Field(k).Name() == "C" {
					v[k] = neverChan(fr)
				}
			}
			p := new(value)
			*p = v
			return p
		}
	}
	externals["time.NewTicker"] = newTimerLike("Ticker")
	externals["time.NewTimer"] = newTimerLike("Timer")
	externals["time.After"] = func(fr *frame, args []value) value { return neverChan(fr) }
	externals["time.Tick"] = func(fr *frame, args []value) value { return neverChan(fr) }
	externals["(*time.Ticker).Stop"] = func(fr *frame, args []value) value { return nil }
	externals["(*time.Ticker).Reset"] = func(fr *frame, args []value) value { return nil }
	externals["(*time.Timer).Stop"] = func(fr *frame, args []value) value { return false }
	externals["(*time.Timer).Reset"] = func(fr *frame, args []value) value { return false }
}

// schedBudgetLeft: with run parameter sched_bound=k the explorer follows the deterministic
// scheduler once k scheduling decisions of a path have deviated from it (context bounding).
func schedBudgetLeft() bool {
	b, ok := ex.params["sched_bound"]
	if !ok {
		return true
	}
	n, err := strconv.Atoi(b)
	return err != nil || ex.schedDeviations < n
}
