package interp

// Hash-consed SMT terms over Bool and fixed-width bit-vectors, with constant
// folding and a concrete evaluator (used for model-guided branch selection).

import (
	"fmt"
	"strings"
)

type term struct {
	op   string // "const", "var", SMT op, or "zext"/"sext"/"extract" (parameter in val)
	args []*term
	bits int // 0 = Bool
	val  uint64
	name string
	id   int

	supDone bool
	supVar  *term // the single variable t depends on (nil if none or several)
	supMany bool  // depends on more than one variable
	truth   *[4]uint64
}

// support computes which variables t depends on (exactly for 0 or 1, "many" otherwise).
func (t *term) support() (*term, bool) {
	if t.supDone {
		return t.supVar, t.supMany
	}
	switch t.op {
	case "const":
	case "var":
		t.supVar = t
	default:
		for _, a := range t.args {
			v, many := a.support()
			if many {
				t.supMany = true
				break
			}
			if v != nil {
				if t.supVar == nil {
					t.supVar = v
				} else if t.supVar != v {
					t.supMany = true
					break
				}
			}
		}
		if t.supMany {
			t.supVar = nil
		}
	}
	t.supDone = true
	return t.supVar, t.supMany
}

// truthTable returns, for a Bool term over one 8-bit variable, the set of
// values of that variable for which the term is true.
func (t *term) truthTable() *[4]uint64 {
	if t.truth != nil {
		return t.truth
	}
	v, _ := t.support()
	var tt [4]uint64
	m := map[string]uint64{}
	for x := 0; x < 256; x++ {
		m[v.name] = uint64(x)
		if evalTerm(t, m, map[int]uint64{}) != 0 {
			tt[x>>6] |= 1 << uint(x&63)
		}
	}
	t.truth = &tt
	return t.truth
}

var termSeq int
var intern = map[string]*term{}

func internKey(op string, bits int, val uint64, args []*term) string {
	var sb strings.Builder
	sb.WriteString(op)
	sb.WriteByte('/')
	sb.WriteString(fmt.Sprint(bits))
	sb.WriteByte('/')
	sb.WriteString(fmt.Sprint(val))
	for _, a := range args {
		sb.WriteByte(',')
		sb.WriteString(fmt.Sprint(a.id))
	}
	return sb.String()
}

func mask(v uint64, bits int) uint64 {
	if bits > 0 && bits < 64 {
		v &= (1 << uint(bits)) - 1
	}
	return v
}

func sext(v uint64, bits int) int64 {
	if bits < 64 {
		sh := uint(64 - bits)
		return int64(v<<sh) >> sh
	}
	return int64(v)
}

func b2u(b bool) uint64 {
	if b {
		return 1
	}
	return 0
}

// applyOp computes op over concrete argument values. ok=false if unknown op.
// Semantics are those of SMT-LIB (total division etc.).
func applyOp(op string, bits int, param uint64, argBits int, v []uint64) (uint64, bool) {
	switch len(v) {
	case 1:
		a := v[0]
		switch op {
		case "not":
			return b2u(a == 0), true
		case "bvneg":
			return mask(-a, bits), true
		case "bvnot":
			return mask(^a, bits), true
		case "zext":
			return a, true
		case "sext":
			return mask(uint64(sext(a, argBits)), bits), true
		case "extract":
			return mask(a, bits), true
		}
	case 2:
		a, b := v[0], v[1]
		ab := argBits
		switch op {
		case "and":
			return b2u(a != 0 && b != 0), true
		case "or":
			return b2u(a != 0 || b != 0), true
		case "bvadd":
			return mask(a+b, bits), true
		case "bvsub":
			return mask(a-b, bits), true
		case "bvmul":
			return mask(a*b, bits), true
		case "bvand":
			return a & b, true
		case "bvor":
			return a | b, true
		case "bvxor":
			return a ^ b, true
		case "bvudiv":
			if b == 0 {
				return mask(^uint64(0), bits), true
			}
			return a / b, true
		case "bvurem":
			if b == 0 {
				return a, true
			}
			return a % b, true
		case "bvsdiv":
			sa, sb := sext(a, ab), sext(b, ab)
			if sb == 0 {
				if sa < 0 {
					return 1, true
				}
				return mask(^uint64(0), bits), true
			}
			if sb == -1 {
				return mask(uint64(-sa), bits), true
			}
			return mask(uint64(sa/sb), bits), true
		case "bvsrem":
			sa, sb := sext(a, ab), sext(b, ab)
			if sb == 0 {
				return a, true
			}
			if sb == -1 {
				return 0, true
			}
			return mask(uint64(sa%sb), bits), true
		case "bvshl":
			if b >= uint64(bits) {
				return 0, true
			}
			return mask(a<<b, bits), true
		case "bvlshr":
			if b >= uint64(bits) {
				return 0, true
			}
			return a >> b, true
		case "bvashr":
			sa := sext(a, ab)
			if b >= uint64(bits) {
				if sa < 0 {
					return mask(^uint64(0), bits), true
				}
				return 0, true
			}
			return mask(uint64(sa>>b), bits), true
		case "=":
			return b2u(a == b), true
		case "bvult":
			return b2u(a < b), true
		case "bvule":
			return b2u(a <= b), true
		case "bvugt":
			return b2u(a > b), true
		case "bvuge":
			return b2u(a >= b), true
		case "bvslt":
			return b2u(sext(a, ab) < sext(b, ab)), true
		case "bvsle":
			return b2u(sext(a, ab) <= sext(b, ab)), true
		case "bvsgt":
			return b2u(sext(a, ab) > sext(b, ab)), true
		case "bvsge":
			return b2u(sext(a, ab) >= sext(b, ab)), true
		}
	case 3:
		if op == "ite" {
			if v[0] != 0 {
				return v[1], true
			}
			return v[2], true
		}
	}
	return 0, false
}

func mkp(op string, bits int, param uint64, args ...*term) *term {
	allConst := true
	for _, a := range args {
		if !a.isConst() {
			allConst = false
			break
		}
	}
	if allConst {
		vals := make([]uint64, len(args))
		for i, a := range args {
			vals[i] = a.val
		}
		ab := 0
		if len(args) > 0 {
			ab = args[len(args)-1].bits
		}
		if r, ok := applyOp(op, bits, param, ab, vals); ok {
			if bits == 0 {
				return constBool(r != 0)
			}
			return constBV(r, bits)
		}
		panic("term: cannot fold " + op)
	}
	// identities
	if len(args) == 2 {
		a, b := args[0], args[1]
		switch op {
		case "bvadd", "bvor", "bvxor":
			if a.isConst() && a.val == 0 {
				return b
			}
			if b.isConst() && b.val == 0 {
				return a
			}
		case "bvsub", "bvshl", "bvlshr", "bvashr":
			if b.isConst() && b.val == 0 {
				return a
			}
		case "bvmul":
			if a.isConst() && a.val == 1 {
				return b
			}
			if b.isConst() && b.val == 1 {
				return a
			}
			if (a.isConst() && a.val == 0) || (b.isConst() && b.val == 0) {
				return constBV(0, bits)
			}
		case "bvand":
			if (a.isConst() && a.val == 0) || (b.isConst() && b.val == 0) {
				return constBV(0, bits)
			}
		case "=":
			if a == b {
				return constBool(true)
			}
			// canonical argument order
			if a.id > b.id {
				a, b = b, a
				args = []*term{a, b}
			}
			// (= (ite c k1 k2) k) with constants
			if b.isConst() && a.op == "ite" && a.args[1].isConst() && a.args[2].isConst() {
				t1 := a.args[1].val == b.val
				t2 := a.args[2].val == b.val
				switch {
				case t1 && t2:
					return constBool(true)
				case t1:
					return a.args[0]
				case t2:
					return tnot(a.args[0])
				default:
					return constBool(false)
				}
			}
		case "bvult", "bvugt", "bvslt", "bvsgt":
			if a == b {
				return constBool(false)
			}
		case "bvule", "bvuge", "bvsle", "bvsge":
			if a == b {
				return constBool(true)
			}
		}
	}
	k := internKey(op, bits, param, args)
	if t, ok := intern[k]; ok {
		return t
	}
	termSeq++
	t := &term{op: op, args: args, bits: bits, val: param, id: termSeq}
	intern[k] = t
	return t
}

func mk(op string, bits int, args ...*term) *term { return mkp(op, bits, 0, args...) }

func constBV(v uint64, bits int) *term {
	v = mask(v, bits)
	k := internKey("const", bits, v, nil)
	if t, ok := intern[k]; ok {
		return t
	}
	termSeq++
	t := &term{op: "const", bits: bits, val: v, id: termSeq}
	intern[k] = t
	return t
}

func constBool(b bool) *term {
	return constBV(b2u(b), 0)
}

func mkVar(name string, bits int) *term {
	k := "var/" + name
	t, ok := intern[k]
	if !ok {
		termSeq++
		t = &term{op: "var", bits: bits, name: name, id: termSeq}
		intern[k] = t
	}
	if t.bits != bits {
		panic(fmt.Sprintf("variable %s re-created with width %d (was %d): non-deterministic harness?", name, bits, t.bits))
	}
	return t
}

func (t *term) isConst() bool { return t.op == "const" }

func tnot(a *term) *term {
	if a.isConst() {
		return constBool(a.val == 0)
	}
	if a.op == "not" {
		return a.args[0]
	}
	return mk("not", 0, a)
}
func tand(a, b *term) *term {
	if a.isConst() {
		if a.val == 0 {
			return a
		}
		return b
	}
	if b.isConst() {
		if b.val == 0 {
			return b
		}
		return a
	}
	if a == b {
		return a
	}
	return mk("and", 0, a, b)
}
func tor(a, b *term) *term {
	if a.isConst() {
		if a.val != 0 {
			return a
		}
		return b
	}
	if b.isConst() {
		if b.val != 0 {
			return b
		}
		return a
	}
	if a == b {
		return a
	}
	return mk("or", 0, a, b)
}
func tite(c, a, b *term) *term {
	if c.isConst() {
		if c.val != 0 {
			return a
		}
		return b
	}
	if a == b {
		return a
	}
	if a.bits == 0 {
		// boolean ite
		if a.isConst() && b.isConst() {
			if a.val != 0 {
				return c
			}
			return tnot(c)
		}
	}
	return mk("ite", a.bits, c, a, b)
}
func teq(a, b *term) *term {
	if a.bits != b.bits {
		panic(fmt.Sprintf("teq: width mismatch %d vs %d", a.bits, b.bits))
	}
	if a.bits == 0 {
		// Bool equality
		if a.isConst() {
			if a.val != 0 {
				return b
			}
			return tnot(b)
		}
		if b.isConst() {
			if b.val != 0 {
				return a
			}
			return tnot(a)
		}
	}
	return mk("=", 0, a, b)
}

// resize converts a bit-vector term to the given width.
func resize(t *term, bits int, signed bool) *term {
	switch {
	case t.bits == bits:
		return t
	case bits < t.bits:
		return mkp("extract", bits, uint64(bits-1), t)
	case signed:
		return mkp("sext", bits, uint64(bits-t.bits), t)
	default:
		return mkp("zext", bits, uint64(bits-t.bits), t)
	}
}

// evalTerm evaluates t under the model (missing variables are 0).
func evalTerm(t *term, model map[string]uint64, memo map[int]uint64) uint64 {
	switch t.op {
	case "const":
		return t.val
	case "var":
		return mask(model[t.name], t.bits)
	}
	if v, ok := memo[t.id]; ok {
		return v
	}
	var r uint64
	if t.op == "ite" {
		// lazy: avoids deep evaluation of untaken arms
		if evalTerm(t.args[0], model, memo) != 0 {
			r = evalTerm(t.args[1], model, memo)
		} else {
			r = evalTerm(t.args[2], model, memo)
		}
	} else {
		vals := make([]uint64, len(t.args))
		for i, a := range t.args {
			vals[i] = evalTerm(a, model, memo)
		}
		ab := t.args[len(t.args)-1].bits
		var ok bool
		r, ok = applyOp(t.op, t.bits, t.val, ab, vals)
		if !ok {
			panic("evalTerm: unknown op " + t.op)
		}
	}
	memo[t.id] = r
	return r
}

func sortOf(bits int) string {
	if bits == 0 {
		return "Bool"
	}
	return fmt.Sprintf("(_ BitVec %d)", bits)
}

func smtOp(t *term) string {
	switch t.op {
	case "zext":
		return fmt.Sprintf("(_ zero_extend %d)", t.val)
	case "sext":
		return fmt.Sprintf("(_ sign_extend %d)", t.val)
	case "extract":
		return fmt.Sprintf("(_ extract %d 0)", t.val)
	}
	return t.op
}
