package main

import (
	"encoding/json"
	"fmt"
	"os"
	"path/filepath"
	"sort"
	"strings"
)

const (
	verifDir = "/verif"
	goBin    = "/root/go/pkg/mod/golang.org/toolchain@v0.0.1-go1.24.0.linux-amd64/bin/go"
)

// repoDir is the tree under test: /repo. Developer aid (used to try seeded changes in a scratch
// worktree without touching /repo): VERIF_REPO names another checkout of the same repository; such
// a run writes its replays under VERIF_OUT (default: a directory beside the worktree) and no evidence.
var (
	repoDir = "/repo"
	outDir  = verifDir
	devRun  = false
)

func init() {
	if r := os.Getenv("VERIF_REPO"); r != "" && r != repoDir {
		repoDir = filepath.Clean(r)
		devRun = true
		outDir = os.Getenv("VERIF_OUT")
		if outDir == "" {
			outDir = repoDir + ".verif-out"
		}
	}
}

// Spec describes the harnesses of one property (harness/<ID>/spec.json).
type Spec struct {
	Property string `json:"property"`
	Units    []Unit `json:"units"`
	// Outside lists what the check does not cover (copied into the evidence).
	Outside []string `json:"outside"`
	Stubs   []string `json:"stubs"`
}

// Unit is one package under test with its injected harness files.
type Unit struct {
	Dir     string   `json:"dir"`   // package directory relative to /repo
	Files   []string `json:"files"` // harness sources relative to harness/<ID>/
	Extra   []Extra  `json:"extra"` // harness sources injected into other package directories
	Runs    []Run    `json:"runs"`
	Workers int      `json:"workers"` // 0 = default
	Tags    string   `json:"tags"`    // extra build tags
}

// Extra is a harness file injected into a package other than the unit's own.
type Extra struct {
	Dir  string `json:"dir"`
	File string `json:"file"`
}

// Run is one exploration: an entry function with bound parameters.
type Run struct {
	Name      string              `json:"name"`
	Entry     string              `json:"entry"`
	Params    map[string]string   `json:"params"`
	Matrix    map[string][]string `json:"matrix"` // cross product over these parameters
	Tiers     []string            `json:"tiers"`  // tiers in which the run is active
	MaxPaths  int                 `json:"max_paths"`
	TimeoutS  int                 `json:"timeout_s"`
	Budget    int64               `json:"instr_budget"`
	Witnesses []string            `json:"witnesses"` // Reach labels that must be reached
	Twin      bool                `json:"twin"`      // vacuity twin: the run must end in a violation of label "twin"
	Bound     string              `json:"bound"`     // human-readable bound statement
	// Summarised: the harness replaces pure callees by over-approximating summaries in this run, so
	// no differential traces are taken (counterexamples are still replayed natively)
	Summarised bool `json:"summarised"`
}

func loadSpec(id string) (*Spec, string, error) {
	dir := filepath.Join(verifDir, "harness", id)
	data, err := os.ReadFile(filepath.Join(dir, "spec.json"))
	if err != nil {
		return nil, "", err
	}
	var s Spec
	dec := json.NewDecoder(strings.NewReader(string(data)))
	dec.DisallowUnknownFields()
	if err := dec.Decode(&s); err != nil {
		return nil, "", fmt.Errorf("spec.json: %v", err)
	}
	return &s, dir, nil
}

// expand returns the concrete runs of r (matrix expanded) active in tier.
func (r Run) expand(tier string) []Run {
	active := len(r.Tiers) == 0
	for _, t := range r.Tiers {
		if t == tier {
			active = true
		}
	}
	if !active {
		return nil
	}
	runs := []Run{r}
	keys := make([]string, 0, len(r.Matrix))
	for k := range r.Matrix {
		keys = append(keys, k)
	}
	sort.Strings(keys)
	for _, k := range keys {
		var next []Run
		for _, base := range runs {
			for _, v := range r.Matrix[k] {
				c := base
				c.Params = map[string]string{}
				for pk, pv := range base.Params {
					c.Params[pk] = pv
				}
				c.Params[k] = v
				c.Name = base.Name + "/" + k + "=" + v
				next = append(next, c)
			}
		}
		runs = next
	}
	for i := range runs {
		runs[i].Matrix = nil
	}
	return runs
}
