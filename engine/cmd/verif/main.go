// Command verif drives the symbolic executor: it loads a property's harness
// spec, explores every run with a pool of worker processes, replays
// counterexamples natively, and writes the evidence file.
package main

import (
	"bufio"
	"encoding/json"
	"fmt"
	"io"
	"os"
	"os/exec"
	"path/filepath"
	"regexp"
	"sort"
	"strconv"
	"strings"
	"sync"
	"time"

	"symgo/interp"
)

func usage() {
	fmt.Fprintln(os.Stderr, `usage:
  verif check <ID> <quick|thorough>     run the property's check, write evidence/<ID>.json
  verif replay <file>                   replay a counterexample natively
  verif worker <ID> <unit>              (internal)`)
	os.Exit(2)
}

func main() {
	if len(os.Args) < 2 {
		usage()
	}
	// the repo needs the go1.24 toolchain; go/packages resolves "go" through PATH
	os.Setenv("PATH", filepath.Dir(goBin)+":"+os.Getenv("PATH"))
	os.Setenv("GOTOOLCHAIN", "local")
	os.Setenv("GOFLAGS", "-mod=mod")
	os.Setenv("GOPROXY", "off")
	switch os.Args[1] {
	case "worker":
		if len(os.Args) != 4 {
			usage()
		}
		u, _ := strconv.Atoi(os.Args[3])
		workerMain(os.Args[2], u)
	case "check":
		if len(os.Args) != 4 {
			usage()
		}
		os.Exit(checkMain(os.Args[2], os.Args[3]))
	case "replay":
		if len(os.Args) != 3 {
			usage()
		}
		os.Exit(replayMain(os.Args[2]))
	default:
		usage()
	}
}

// ---------------------------------------------------------------- worker pool

type workerProc struct {
	cmd *exec.Cmd
	in  *bufio.Writer
	out *bufio.Reader
	inc io.WriteCloser
}

func (w *workerProc) send(req wireReq) error {
	b, _ := json.Marshal(req)
	if _, err := w.in.Write(b); err != nil {
		return err
	}
	w.in.WriteByte('\n')
	return w.in.Flush()
}

func (w *workerProc) recv() (wireResp, error) {
	var r wireResp
	line, err := w.out.ReadBytes('\n')
	if err != nil {
		return r, fmt.Errorf("worker died: %v", err)
	}
	if err := json.Unmarshal(line, &r); err != nil {
		return r, fmt.Errorf("bad worker reply: %v: %.200s", err, line)
	}
	return r, nil
}

func (w *workerProc) stop() {
	w.send(wireReq{Cmd: "quit"})
	w.inc.Close()
	done := make(chan struct{})
	go func() { w.cmd.Wait(); close(done) }()
	select {
	case <-done:
	case <-time.After(3 * time.Second):
		w.cmd.Process.Kill()
	}
}

func startWorkers(id string, unit int, n int) ([]*workerProc, int, float64, error) {
	self, _ := os.Executable()
	ws := make([]*workerProc, n)
	errs := make([]error, n)
	var pk int
	var loadS float64
	var wg sync.WaitGroup
	var mu sync.Mutex
	for k := 0; k < n; k++ {
		wg.Add(1)
		go func(k int) {
			defer wg.Done()
			cmd := exec.Command(self, "worker", id, strconv.Itoa(unit))
			cmd.Stderr = os.Stderr
			in, _ := cmd.StdinPipe()
			out, _ := cmd.StdoutPipe()
			if err := cmd.Start(); err != nil {
				errs[k] = err
				return
			}
			w := &workerProc{cmd: cmd, in: bufio.NewWriter(in), inc: in, out: bufio.NewReaderSize(out, 1<<20)}
			r, err := w.recv()
			if err == nil && !r.OK {
				err = fmt.Errorf("%s", r.Err)
			}
			if err != nil {
				errs[k] = err
				cmd.Process.Kill()
				return
			}
			mu.Lock()
			pk = r.Packages
			if r.LoadS > loadS {
				loadS = r.LoadS
			}
			mu.Unlock()
			ws[k] = w
		}(k)
	}
	wg.Wait()
	for _, e := range errs {
		if e != nil {
			for _, w := range ws {
				if w != nil {
					w.stop()
				}
			}
			return nil, 0, 0, e
		}
	}
	return ws, pk, loadS, nil
}

// ---------------------------------------------------------------- one run

type runStats struct {
	Name          string            `json:"name"`
	Entry         string            `json:"entry"`
	Params        map[string]string `json:"params,omitempty"`
	Bound         string            `json:"bound,omitempty"`
	Paths         int               `json:"paths"`
	Decisions     int               `json:"decisions"`
	NewBranches   int               `json:"new_branches"`
	DomainDecided int               `json:"branches_decided_by_byte_domains"`
	GuardChecks   int               `json:"path_feasibility_guard_checks"`
	Obligations   int               `json:"obligations"`
	Discharged    int               `json:"discharged"`
	Pruned        int               `json:"pruned_by_assume"`
	Queries       int               `json:"queries"`
	QSat          int               `json:"q_sat"`
	QUnsat        int               `json:"q_unsat"`
	QUnknown      int               `json:"q_unknown"`
	SolverS       float64           `json:"solver_s"`
	WallS         float64           `json:"wall_s"`
	Instrs        int64             `json:"instructions"`
	MaxPathInstr  int64             `json:"max_path_instructions"`
	Exhaustive    bool              `json:"exhaustive"`
	Inconclusive  map[string]int    `json:"inconclusive,omitempty"`
	Reached       map[string]int    `json:"reached,omitempty"`
	Violations    int               `json:"violations_raw"`
	Twin          bool              `json:"twin,omitempty"`

	violations []interp.Violation
	traces     []interp.Trace
	funcs      map[string]string
	stubs      map[string]int
	assumes    map[string]int
}

func (rs *runStats) merge(b *interp.BatchResult) {
	rs.Paths += b.Paths
	rs.Decisions += b.Decisions
	rs.NewBranches += b.NewBranches
	rs.DomainDecided += b.DomainDecided
	rs.GuardChecks += b.GuardChecks
	rs.Obligations += b.Obligations
	rs.Discharged += b.Discharged
	rs.Pruned += b.Pruned
	rs.Queries += b.Queries
	rs.QSat += b.QSat
	rs.QUnsat += b.QUnsat
	rs.QUnknown += b.QUnknown
	rs.SolverS += float64(b.SolverNs) / 1e9
	rs.Instrs += b.Instrs
	if b.MaxPathInstr > rs.MaxPathInstr {
		rs.MaxPathInstr = b.MaxPathInstr
	}
	for k, v := range b.Inconclusive {
		if rs.Inconclusive == nil {
			rs.Inconclusive = map[string]int{}
		}
		rs.Inconclusive[k] += v
	}
	for k, v := range b.Reached {
		if rs.Reached == nil {
			rs.Reached = map[string]int{}
		}
		rs.Reached[k] += v
	}
	for k, v := range b.Funcs {
		rs.funcs[k] = v
	}
	for k, v := range b.Stubs {
		rs.stubs[k] += v
	}
	for k, v := range b.Assumes {
		rs.assumes[k] += v
	}
	rs.Violations += len(b.Violations)
	// keep a bounded number of witnesses per (label, known)
	for _, v := range b.Violations {
		n := 0
		for _, o := range rs.violations {
			if o.Label == v.Label && o.Known == v.Known {
				n++
			}
		}
		if n < 3 {
			rs.violations = append(rs.violations, v)
		}
	}
	if len(rs.traces) < 400 {
		rs.traces = append(rs.traces, b.Traces...)
	}
}

// explore runs one Run to completion on the worker pool.
func explore(ws []*workerProc, run Run, known []interp.KnownFinding, seed uint64, traceEvery int) (*runStats, error) {
	rs := &runStats{Name: run.Name, Entry: run.Entry, Params: run.Params, Bound: run.Bound, Twin: run.Twin,
		funcs: map[string]string{}, stubs: map[string]int{}, assumes: map[string]int{}}
	t0 := time.Now()
	for _, w := range ws {
		if err := w.send(wireReq{Cmd: "run", Entry: run.Entry, Params: run.Params, Known: known, Budget: run.Budget, TraceEvery: traceEvery}); err != nil {
			return nil, err
		}
	}
	for _, w := range ws {
		r, err := w.recv()
		if err != nil {
			return nil, err
		}
		if !r.OK {
			return nil, fmt.Errorf("%s", r.Err)
		}
	}
	maxPaths := run.MaxPaths
	if maxPaths == 0 {
		maxPaths = 200000
	}
	timeout := time.Duration(run.TimeoutS) * time.Second
	if run.TimeoutS == 0 {
		timeout = 10 * time.Minute
	}
	type done struct {
		w   *workerProc
		res *interp.BatchResult
		err error
	}
	results := make(chan done, len(ws))
	queue := []interp.WorkItem{{}}
	idle := append([]*workerProc(nil), ws...)
	busy := 0
	stopped := ""
	var firstErr error
	for {
		for len(idle) > 0 && len(queue) > 0 && stopped == "" && firstErr == nil {
			w := idle[len(idle)-1]
			idle = idle[:len(idle)-1]
			// depth-first: newest item; batch size adapts to the amount of queued work
			it := queue[len(queue)-1]
			queue = queue[:len(queue)-1]
			max := 64
			if len(queue) < 2*len(ws) {
				max = 8
			}
			if len(queue) < len(ws)/2 {
				max = 2
			}
			busy++
			go func(w *workerProc, it interp.WorkItem, max int) {
				if err := w.send(wireReq{Cmd: "batch", Item: &it, Max: max, Seed: seed}); err != nil {
					results <- done{w, nil, err}
					return
				}
				r, err := w.recv()
				if err == nil && !r.OK {
					err = fmt.Errorf("%s", r.Err)
				}
				results <- done{w, r.Result, err}
			}(w, it, max)
		}
		if busy == 0 {
			break
		}
		d := <-results
		busy--
		if d.err != nil {
			if firstErr == nil {
				firstErr = d.err
			}
			continue
		}
		idle = append(idle, d.w)
		rs.merge(d.res)
		queue = append(queue, d.res.Work...)
		if stopped == "" {
			if rs.Paths >= maxPaths {
				stopped = fmt.Sprintf("path budget %d exceeded", maxPaths)
			} else if time.Since(t0) > timeout {
				stopped = fmt.Sprintf("time budget %s exceeded", timeout)
			}
		}
	}
	if firstErr != nil {
		return nil, firstErr
	}
	rs.WallS = time.Since(t0).Seconds()
	if stopped != "" {
		if rs.Inconclusive == nil {
			rs.Inconclusive = map[string]int{}
		}
		rs.Inconclusive["bound-exceeded: "+stopped+fmt.Sprintf(" (%d work items left)", len(queue))]++
	}
	rs.Exhaustive = stopped == "" && len(rs.Inconclusive) == 0
	return rs, nil
}

// ---------------------------------------------------------------- known findings

func loadKnown(property string) ([]interp.KnownFinding, error) {
	data, err := os.ReadFile(filepath.Join(verifDir, "known_findings.json"))
	if os.IsNotExist(err) {
		return nil, nil
	}
	if err != nil {
		return nil, err
	}
	var file struct {
		Findings []interp.KnownFinding `json:"findings"`
	}
	if err := json.Unmarshal(data, &file); err != nil {
		return nil, fmt.Errorf("known_findings.json: %v", err)
	}
	var out []interp.KnownFinding
	for _, k := range file.Findings {
		if k.Property == property {
			out = append(out, k)
		}
	}
	return out, nil
}

// ---------------------------------------------------------------- check

func envSeed() uint64 {
	if s := os.Getenv("VERIF_SEED"); s != "" {
		if n, err := strconv.ParseUint(s, 10, 64); err == nil {
			return n
		}
	}
	return 1
}

type replayFile struct {
	Property string            `json:"property"`
	Unit     int               `json:"unit"`
	Run      string            `json:"run"`
	Entry    string            `json:"entry"`
	Params   map[string]string `json:"params"`
	Inputs   []interp.InputVal `json:"inputs"`
	Label    string            `json:"label,omitempty"`
	Kind     string            `json:"kind,omitempty"`
	Site     string            `json:"site,omitempty"`
	Tags     []string          `json:"tags,omitempty"`
	Known    string            `json:"known,omitempty"`
	Sched    bool              `json:"schedule_dependent,omitempty"`
	Observe  []string          `json:"observe,omitempty"`
	Outcome  string            `json:"outcome,omitempty"`
	Readable string            `json:"readable,omitempty"`
	Docs     map[string]string `json:"docs,omitempty"`
}

// readableDocs describes a counterexample whose inputs include documents built by
// verifrt.Arbitrary: the lazily recorded inputs are replaced by the rendered document text.
func readableDocs(in []interp.InputVal, docs map[string]string) string {
	var plain []interp.InputVal
	for _, x := range in {
		if !strings.HasPrefix(x.Kind, "lz:") {
			plain = append(plain, x)
		}
	}
	s := readable(plain)
	var names []string
	for n := range docs {
		names = append(names, n)
	}
	sort.Strings(names)
	for _, n := range names {
		if s != "" {
			s += " "
		}
		s += n + "=" + strconv.Quote(docs[n])
	}
	return s
}

func readable(in []interp.InputVal) string {
	// group consecutive byte inputs of the same name into quoted strings
	var sb strings.Builder
	for i := 0; i < len(in); {
		if i > 0 {
			sb.WriteString(" ")
		}
		if in[i].Kind == "byte" {
			j := i
			var b []byte
			for j < len(in) && in[j].Kind == "byte" && in[j].Name == in[i].Name {
				b = append(b, byte(in[j].Val))
				j++
			}
			fmt.Fprintf(&sb, "%s=%q", in[i].Name, string(b))
			i = j
			continue
		}
		switch in[i].Kind {
		case "int":
			fmt.Fprintf(&sb, "%s=%d", in[i].Name, int64(in[i].Val))
		default:
			fmt.Fprintf(&sb, "%s=%d", in[i].Name, in[i].Val)
		}
		i++
	}
	return sb.String()
}

func checkMain(id, tier string) int {
	if tier != "quick" && tier != "thorough" {
		usage()
	}
	t0 := time.Now()
	spec, hdir, err := loadSpec(id)
	if err != nil {
		fmt.Println("HARNESS-SPEC-ERROR:", err)
		return 2
	}
	known, err := loadKnown(spec.Property)
	if err != nil {
		fmt.Println("KNOWN-FINDINGS-ERROR:", err)
		return 2
	}
	seed := envSeed()
	ev := newEvidence(spec, tier, seed)
	exit := 0
	machineryFailed := false
	replayDir := filepath.Join(outDir, "replays", id)
	os.MkdirAll(replayDir, 0o755)
	// stale replays of earlier runs are removed
	if old, _ := filepath.Glob(filepath.Join(replayDir, "*.json")); true {
		for _, f := range old {
			os.Remove(f)
		}
	}
	nReplay := 0
	knownSeen := map[string]string{}
	var only *regexp.Regexp
	if s := os.Getenv("VERIF_ONLY"); s != "" {
		only = regexp.MustCompile(s)
		fmt.Printf("PARTIAL: only runs matching %q are explored; evidence is not written\n", s)
	}
	for ui, unit := range spec.Units {
		var runs []Run
		for _, r := range unit.Runs {
			runs = append(runs, r.expand(tier)...)
		}
		if only != nil {
			// developer aid: explore only the matching runs; no evidence is written for a partial check
			var sel []Run
			for _, r := range runs {
				if only.MatchString(r.Name) {
					sel = append(sel, r)
				}
			}
			runs = sel
		}
		if len(runs) == 0 {
			continue
		}
		nw := unit.Workers
		if nw == 0 {
			nw = 14
		}
		if s := os.Getenv("VERIF_WORKERS"); s != "" {
			if n, err := strconv.Atoi(s); err == nil && n > 0 {
				nw = n
			}
		}
		ws, npk, loadS, err := startWorkers(id, ui, nw)
		if err != nil {
			fmt.Printf("MACHINERY-FAILED property=%s unit=%s: %v\n", id, unit.Dir, err)
			ev.fail(err.Error())
			machineryFailed = true
			continue
		}
		ev.Coverage.Packages += npk
		ev.Coverage.LoadS += loadS
		var pending []replayFile
		for _, run := range runs {
			traceEvery := 0
			if !run.Twin && !run.Summarised {
				// a run whose callees are summarised by over-approximating stubs has paths no native
				// run follows; its counterexamples are still confirmed natively one by one
				traceEvery = 1
			}
			rs, err := explore(ws, run, known, seed, traceEvery)
			if err != nil {
				fmt.Printf("MACHINERY-FAILED property=%s run=%s: %v\n", id, run.Name, err)
				ev.fail(run.Name + ": " + err.Error())
				machineryFailed = true
				// workers may be in a bad state: restart them
				for _, w := range ws {
					w.stop()
				}
				ws, _, _, err = startWorkers(id, ui, nw)
				if err != nil {
					break
				}
				continue
			}
			fmt.Printf("run %-40s paths=%d obligations=%d/%d queries=%d violations=%d inconclusive=%d wall=%.1fs\n",
				run.Name, rs.Paths, rs.Discharged, rs.Obligations, rs.Queries, rs.Violations, len(rs.Inconclusive), rs.WallS)
			for k, v := range rs.Inconclusive {
				fmt.Printf("    inconclusive: %s x%d\n", k, v)
			}
			// vacuity
			if run.Twin {
				ok := false
				for _, v := range rs.violations {
					if v.Label == "twin" {
						ok = true
					}
				}
				if !ok {
					fmt.Printf("MACHINERY-FAILED property=%s run=%s: vacuity twin was not violated (harness does not reach its end)\n", id, run.Name)
					ev.fail(run.Name + ": vacuity twin not violated")
					machineryFailed = true
				}
				rs.violations = nil
				rs.Violations = 0
			}
			for _, wlabel := range run.Witnesses {
				if rs.Reached[wlabel] == 0 {
					fmt.Printf("MACHINERY-FAILED property=%s run=%s: vacuity witness %q not reached on any path\n", id, run.Name, wlabel)
					ev.fail(run.Name + ": witness not reached: " + wlabel)
					machineryFailed = true
				}
			}
			ev.addRun(rs)
			// counterexamples -> replay files
			for _, v := range rs.violations {
				nReplay++
				rf := replayFile{Property: id, Unit: ui, Run: run.Name, Entry: run.Entry, Params: run.Params, Inputs: v.Inputs,
					Label: v.Label, Kind: v.Kind, Site: v.Site, Tags: v.Tags, Known: v.Known, Sched: v.Sched, Readable: readableDocs(v.Inputs, v.Docs), Docs: v.Docs}
				pending = append(pending, rf)
			}
			// differential traces (sampled by seed)
			traces := rs.traces
			if len(traces) > 40 {
				// deterministic subsample
				step := len(traces) / 40
				var sub []interp.Trace
				for k := int(seed) % step; k < len(traces) && len(sub) < 40; k += step {
					sub = append(sub, traces[k])
				}
				traces = sub
			}
			for _, tr := range traces {
				pending = append(pending, replayFile{Property: id, Unit: ui, Run: run.Name, Entry: run.Entry, Params: run.Params,
					Inputs: tr.Inputs, Observe: tr.Observe, Outcome: tr.Outcome, Kind: "trace", Docs: tr.Docs, Readable: readableDocs(tr.Inputs, tr.Docs)})
			}
		}
		for _, w := range ws {
			if w != nil {
				w.stop()
			}
		}
		if len(pending) == 0 {
			continue
		}
		// native replay of everything pending for this unit in one go test
		results, err := nativeReplay(id, hdir, ui, unit, pending, replayDir)
		if err != nil {
			fmt.Printf("MACHINERY-FAILED property=%s unit=%s: native replay: %v\n", id, unit.Dir, err)
			ev.fail("native replay: " + err.Error())
			machineryFailed = true
			continue
		}
		for k, rf := range pending {
			nr := results[k]
			if rf.Kind == "trace" {
				ev.Coverage.TracesValidated++
				if !traceAgrees(rf, nr) {
					ev.Coverage.TraceMismatches++
					fmt.Printf("ENGINE-MISMATCH property=%s run=%s inputs: %s\n    engine: outcome=%s\n    native: result=%s failed=%v msg=%s\n",
						id, rf.Run, readableDocs(rf.Inputs, rf.Docs), rf.Outcome, nr.Result, nr.Failed, nr.Msg)
					for k := 0; k < len(rf.Observe) || k < len(nr.Observe); k++ {
						var a, b string
						if k < len(rf.Observe) {
							a = rf.Observe[k]
						}
						if k < len(nr.Observe) {
							b = nr.Observe[k]
						}
						if a != b {
							fmt.Printf("    observation %d: engine %s | native %s\n", k, a, b)
						}
					}
					machineryFailed = true
				}
				os.Remove(nr.File)
				continue
			}
			confirmed := false
			switch rf.Kind {
			case "assert":
				for _, l := range nr.Failed {
					if l == rf.Label {
						confirmed = true
					}
				}
				// natively the goroutine schedule cannot be dictated: a schedule-dependent
				// counterexample is confirmed when some randomised native schedule fails an
				// obligation of the same harness, whichever it is
				if rf.Sched && len(nr.Failed) > 0 {
					confirmed = true
				}
			case "panic":
				confirmed = nr.Result == "panic"
			case "hang":
				confirmed = nr.Result == "timeout"
			}
			sample := map[string]any{"run": rf.Run, "label": rf.Label, "inputs": rf.Readable, "native": nr.Result, "native_msg": nr.Msg, "confirmed": confirmed}
			switch {
			case !confirmed:
				ev.Coverage.Unconfirmed++
				ev.inconclusive("unconfirmed-counterexample: " + rf.Label)
				fmt.Printf("UNCONFIRMED property=%s run=%s label=%q inputs: %s (native: %s %v %s)\n", id, rf.Run, rf.Label, rf.Readable, nr.Result, nr.Failed, nr.Msg)
				ev.Coverage.Counterexamples = append(ev.Coverage.Counterexamples, sample)
			case rf.Known != "":
				if _, seen := knownSeen[rf.Known]; !seen {
					knownSeen[rf.Known] = nr.File
					ev.Coverage.Counterexamples = append(ev.Coverage.Counterexamples, sample)
				} else {
					os.Remove(nr.File)
				}
			default:
				exit = 1
				ev.Violations++
				ev.Coverage.Counterexamples = append(ev.Coverage.Counterexamples, sample)
				fmt.Printf("VIOLATION property=%s replay=%s\n    run=%s label=%q\n    inputs: %s\n    native: %s %s\n", id, nr.File, rf.Run, rf.Label, rf.Readable, nr.Result, nr.Msg)
			}
		}
	}
	for _, k := range known {
		if k.Status == "fixed" {
			continue
		}
		if f, ok := knownSeen[k.ID]; ok {
			fmt.Printf("KNOWN-FINDING: property=%s %s [%s; witness %s]\n", id, k.What, k.ID, f)
			ev.Coverage.KnownFindingsMatched = append(ev.Coverage.KnownFindingsMatched, k.ID)
		}
	}
	ev.finish(time.Since(t0).Seconds())
	if only != nil || devRun {
		// partial / scratch-tree developer run
	} else if err := ev.write(); err != nil {
		fmt.Println("EVIDENCE-WRITE-FAILED:", err)
		return 2
	}
	if machineryFailed && exit == 0 {
		// (natively confirmed violations take precedence over a failed vacuity witness)
		return 2
	}
	if n := ev.inconclusiveTotal(); n > 0 {
		fmt.Printf("INCONCLUSIVE property=%s items=%d\n", id, n)
	}
	if exit == 0 {
		fmt.Printf("HELD-WITHIN-BOUND property=%s tier=%s paths=%d obligations=%d queries=%d wall=%.1fs\n", id, tier,
			ev.Coverage.States, ev.Coverage.Obligations, ev.Coverage.Queries["total"], time.Since(t0).Seconds())
	}
	return exit
}

func traceAgrees(rf replayFile, nr nativeResult) bool {
	switch {
	case rf.Outcome == "ok":
		if nr.Result != "ok" || len(nr.Failed) > 0 {
			return false
		}
	case strings.HasPrefix(rf.Outcome, "assert:"):
		// the sampled model need not be the failing one; only observations are compared
	case strings.HasPrefix(rf.Outcome, "panic:"):
		return nr.Result == "panic"
	}
	if len(rf.Observe) != len(nr.Observe) {
		return false
	}
	for i := range rf.Observe {
		if rf.Observe[i] != nr.Observe[i] {
			return false
		}
	}
	return true
}

func sortedKeys[V any](m map[string]V) []string {
	keys := make([]string, 0, len(m))
	for k := range m {
		keys = append(keys, k)
	}
	sort.Strings(keys)
	return keys
}
