package main

import (
	"bufio"
	"encoding/json"
	"fmt"
	"go/types"
	"os"
	"path/filepath"
	"strings"
	"time"

	"golang.org/x/tools/go/packages"
	"golang.org/x/tools/go/ssa"
	"golang.org/x/tools/go/ssa/ssautil"

	"symgo/interp"
)

// Messages between coordinator and worker (one JSON document per line).
type wireReq struct {
	Cmd        string                `json:"cmd"` // run | batch | quit
	Entry      string                `json:"entry,omitempty"`
	Params     map[string]string     `json:"params,omitempty"`
	Known      []interp.KnownFinding `json:"known,omitempty"`
	Budget     int64                 `json:"budget,omitempty"`
	TraceEvery int                   `json:"trace_every,omitempty"`
	Item       *interp.WorkItem      `json:"item,omitempty"`
	Max        int                   `json:"max,omitempty"`
	Seed       uint64                `json:"seed,omitempty"`
}

type wireResp struct {
	OK       bool                `json:"ok"`
	Err      string              `json:"err,omitempty"`
	Packages int                 `json:"packages,omitempty"`
	LoadS    float64             `json:"load_s,omitempty"`
	Result   *interp.BatchResult `json:"result,omitempty"`
}

func overlayFor(id, harnessDir string, u Unit) (map[string]string, error) {
	// the harness runtime and helper packages (never written under /repo)
	ov := map[string]string{
		filepath.Join(repoDir, "internal/verifrt/verifrt.go"):         filepath.Join(verifDir, "rt/verifrt/verifrt.go"),
		filepath.Join(repoDir, "internal/verifrt/symfs/symfs.go"):     filepath.Join(verifDir, "rt/symfs/symfs.go"),
		filepath.Join(repoDir, "internal/verifrt/fake/fake.go"):       filepath.Join(verifDir, "rt/fake/fake.go"),
		filepath.Join(repoDir, "internal/verifrt/vos/vos.go"):         filepath.Join(verifDir, "rt/vos/vos.go"),
		filepath.Join(repoDir, "internal/verifrt/vos/osstubs.go"):     filepath.Join(verifDir, "rt/vos/osstubs.go"),
		filepath.Join(repoDir, "internal/verifrt/tarstub/tarstub.go"): filepath.Join(verifDir, "rt/tarstub/tarstub.go"),
		filepath.Join(repoDir, "internal/verifrt/fakeimg/fakeimg.go"): filepath.Join(verifDir, "rt/fakeimg/fakeimg.go"),
	}
	for _, f := range u.Files {
		src := filepath.Join(harnessDir, f)
		if _, err := os.Stat(src); err != nil {
			return nil, err
		}
		base := strings.TrimSuffix(filepath.Base(f), ".go")
		dst := filepath.Join(repoDir, u.Dir, "zz_verif_"+strings.ToLower(id)+"_"+base+".go")
		ov[dst] = src
	}
	for _, x := range u.Extra {
		src := filepath.Join(harnessDir, x.File)
		if _, err := os.Stat(src); err != nil {
			return nil, err
		}
		base := strings.TrimSuffix(filepath.Base(x.File), ".go")
		ov[filepath.Join(repoDir, x.Dir, "zz_verif_"+strings.ToLower(id)+"_"+base+".go")] = src
	}
	return ov, nil
}

func goEnv() []string {
	env := []string{}
	for _, e := range os.Environ() {
		if strings.HasPrefix(e, "GOFLAGS=") || strings.HasPrefix(e, "GOTOOLCHAIN=") || strings.HasPrefix(e, "GOPROXY=") ||
			strings.HasPrefix(e, "PATH=") || strings.HasPrefix(e, "GOSUMDB=") || strings.HasPrefix(e, "CGO_ENABLED=") {
			continue
		}
		env = append(env, e)
	}
	env = append(env, "GOFLAGS=-mod=mod", "GOTOOLCHAIN=local", "GOPROXY=off",
		"PATH="+filepath.Dir(goBin)+":"+os.Getenv("PATH"))
	return env
}

func loadUnit(id, harnessDir string, u Unit) (*ssa.Program, *ssa.Package, int, error) {
	ov, err := overlayFor(id, harnessDir, u)
	if err != nil {
		return nil, nil, 0, err
	}
	overlay := map[string][]byte{}
	for dst, src := range ov {
		data, err := os.ReadFile(src)
		if err != nil {
			return nil, nil, 0, err
		}
		overlay[dst] = data
	}
	tags := "math_big_pure_go,purego"
	if u.Tags != "" {
		tags += "," + u.Tags
	}
	cfg := &packages.Config{
		Mode:       packages.LoadAllSyntax,
		Dir:        repoDir,
		Overlay:    overlay,
		Env:        append(goEnv(), "CGO_ENABLED=0"),
		BuildFlags: []string{"-tags=" + tags},
	}
	pkgs, err := packages.Load(cfg, "./"+u.Dir)
	if err != nil {
		return nil, nil, 0, err
	}
	var errs []string
	packages.Visit(pkgs, nil, func(p *packages.Package) {
		for _, e := range p.Errors {
			errs = append(errs, e.Error())
		}
	})
	if len(errs) > 0 {
		if len(errs) > 8 {
			errs = errs[:8]
		}
		return nil, nil, 0, fmt.Errorf("HARNESS-BUILD-FAILED: %s", strings.Join(errs, "; "))
	}
	prog, ssapkgs := ssautil.AllPackages(pkgs, ssa.InstantiateGenerics)
	if len(ssapkgs) != 1 || ssapkgs[0] == nil {
		return nil, nil, 0, fmt.Errorf("expected one package for ./%s", u.Dir)
	}
	// Function bodies are built lazily, per package, when first entered.
	ssapkgs[0].Build()
	for _, name := range []string{"runtime", "errors", "fmt", "unicode/utf8", "io/fs"} {
		if p := prog.ImportedPackage(name); p != nil {
			p.Build()
		}
	}
	return prog, ssapkgs[0], len(prog.AllPackages()), nil
}

// workerMain serves exploration requests on stdin/stdout.
func workerMain(id string, unitIdx int) {
	out := bufio.NewWriter(os.Stdout)
	reply := func(r wireResp) {
		b, _ := json.Marshal(r)
		out.Write(b)
		out.WriteByte('\n')
		out.Flush()
	}
	spec, hdir, err := loadSpec(id)
	if err != nil {
		reply(wireResp{Err: err.Error()})
		return
	}
	interp.RepoDir = repoDir
	t0 := time.Now()
	_, pkg, npk, err := loadUnit(id, hdir, spec.Units[unitIdx])
	if err != nil {
		reply(wireResp{Err: err.Error()})
		return
	}
	reply(wireResp{OK: true, Packages: npk, LoadS: time.Since(t0).Seconds()})
	sizes := types.SizesFor("gc", "amd64")
	in := bufio.NewReaderSize(os.Stdin, 1<<20)
	var w *interp.Worker
	for {
		line, err := in.ReadBytes('\n')
		if err != nil {
			return
		}
		var req wireReq
		if err := json.Unmarshal(line, &req); err != nil {
			reply(wireResp{Err: "bad request: " + err.Error()})
			continue
		}
		switch req.Cmd {
		case "quit":
			if w != nil {
				w.Close()
			}
			return
		case "run":
			if w != nil {
				w.Close()
			}
			w, err = interp.NewWorker(pkg, req.Entry, sizes, 0)
			if err != nil {
				reply(wireResp{Err: err.Error()})
				w = nil
				continue
			}
			w.Configure(interp.Options{Params: req.Params, Known: req.Known, InstrBudget: req.Budget, TraceEvery: req.TraceEvery})
			if err := w.Init(); err != nil {
				reply(wireResp{Err: err.Error()})
				continue
			}
			reply(wireResp{OK: true})
		case "batch":
			func() {
				defer func() {
					if r := recover(); r != nil {
						reply(wireResp{Err: fmt.Sprintf("ENGINE-ERROR: %v", r)})
					}
				}()
				res := w.RunBatch(*req.Item, req.Max, req.Seed)
				reply(wireResp{OK: true, Result: res})
			}()
		default:
			reply(wireResp{Err: "unknown command " + req.Cmd})
		}
	}
}
