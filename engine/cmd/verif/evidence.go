package main

import (
	"encoding/json"
	"fmt"
	"os"
	"path/filepath"
	"sort"
	"strings"
)

type coverage struct {
	// model_checking keys of EVIDENCE.schema.json
	States          int   `json:"states"`
	Transitions     int   `json:"transitions"`
	TracesValidated int   `json:"traces_validated_against_impl"`
	Samples         []any `json:"samples"`
	// proof-style counters
	Obligations int `json:"obligations"`
	Discharged  int `json:"discharged"`
	// exploration-style counters (also accepted by the schema)
	Evaluations        int    `json:"evaluations"`
	DistinctNontrivial int    `json:"distinct_nontrivial"`
	Rule               string `json:"rule"`
	Exhaustive         bool   `json:"exhaustive"`

	Explanation          string            `json:"explanation"`
	Technique            string            `json:"technique"`
	Packages             int               `json:"packages_loaded"`
	LoadS                float64           `json:"load_s"`
	FunctionsEncoded     []string          `json:"functions_encoded"`
	FunctionsEncodedN    int               `json:"functions_encoded_count"`
	RepoFunctionsN       int               `json:"repo_functions_encoded_count"`
	Bounds               []string          `json:"bounds"`
	Outside              []string          `json:"outside_the_claim"`
	Queries              map[string]int    `json:"queries"`
	SolverS              float64           `json:"solver_s"`
	Solver               string            `json:"solver"`
	Instructions         int64             `json:"instructions_interpreted"`
	VacuityWitnesses     map[string]int    `json:"vacuity_witnesses"`
	Inconclusive         map[string]int    `json:"inconclusive"`
	TraceMismatches      int               `json:"trace_mismatches"`
	Unconfirmed          int               `json:"unconfirmed_counterexamples"`
	Counterexamples      []any             `json:"counterexamples,omitempty"`
	KnownFindingsMatched []string          `json:"known_findings_matched"`
	Runs                 []*runStats       `json:"runs"`
	MachineryFailures    []string          `json:"machinery_failures,omitempty"`
	funcs                map[string]string `json:"-"`
}

type evidence struct {
	PropertyID  string   `json:"property_id"`
	Tier        string   `json:"tier"`
	Seed        int64    `json:"seed"`
	Level       string   `json:"level"`
	Coverage    coverage `json:"coverage"`
	Assumptions []string `json:"assumptions"`
	WallS       float64  `json:"wall_s"`
	Violations  int      `json:"violations"`

	assume map[string]int
	stubs  map[string]int
	spec   *Spec
}

func newEvidence(spec *Spec, tier string, seed uint64) *evidence {
	ev := &evidence{PropertyID: spec.Property, Tier: tier, Seed: int64(seed), Level: "model_checking", spec: spec,
		assume: map[string]int{}, stubs: map[string]int{}}
	ev.Coverage.Queries = map[string]int{}
	ev.Coverage.VacuityWitnesses = map[string]int{}
	ev.Coverage.Inconclusive = map[string]int{}
	ev.Coverage.funcs = map[string]string{}
	ev.Coverage.Outside = spec.Outside
	ev.Coverage.KnownFindingsMatched = []string{}
	ev.Coverage.Solver = "z3 5.1.0 (z3-new -in), QF_BV, incremental push/pop, one process per worker"
	ev.Coverage.Technique = "bounded symbolic execution of the repo's Go SSA (go/ssa built from /repo's working tree on this run) with an SMT verdict per branch and per obligation"
	return ev
}

func (ev *evidence) fail(msg string) {
	ev.Coverage.MachineryFailures = append(ev.Coverage.MachineryFailures, msg)
}

func (ev *evidence) inconclusive(kind string) { ev.Coverage.Inconclusive[kind]++ }

func (ev *evidence) inconclusiveTotal() int {
	n := 0
	for _, v := range ev.Coverage.Inconclusive {
		n += v
	}
	return n
}

func (ev *evidence) addRun(rs *runStats) {
	c := &ev.Coverage
	c.Runs = append(c.Runs, rs)
	c.States += rs.Paths
	c.Transitions += rs.Decisions
	c.Obligations += rs.Obligations
	c.Discharged += rs.Discharged
	c.Queries["total"] += rs.Queries
	c.Queries["sat"] += rs.QSat
	c.Queries["unsat"] += rs.QUnsat
	c.Queries["unknown"] += rs.QUnknown
	c.Queries["branch_feasibility"] += rs.NewBranches
	c.Queries["assertion"] += rs.Obligations
	c.SolverS += rs.SolverS
	c.Instructions += rs.Instrs
	for k, v := range rs.Reached {
		c.VacuityWitnesses[k] += v
	}
	for k, v := range rs.Inconclusive {
		c.Inconclusive[rs.Name+": "+k] += v
	}
	for k, v := range rs.funcs {
		c.funcs[k] = v
	}
	for k, v := range rs.stubs {
		ev.stubs[k] += v
	}
	for k, v := range rs.assumes {
		ev.assume[k] += v
	}
	if rs.Bound != "" {
		c.Bounds = append(c.Bounds, rs.Name+": "+rs.Bound)
	}
	// a few explored paths written out
	for k, tr := range rs.traces {
		if k >= 2 || len(c.Samples) >= 12 {
			break
		}
		c.Samples = append(c.Samples, map[string]any{"run": rs.Name, "path_inputs": readableDocs(tr.Inputs, tr.Docs), "observations": tr.Observe, "outcome": tr.Outcome})
	}
}

func (ev *evidence) finish(wall float64) {
	c := &ev.Coverage
	ev.WallS = wall
	exhaustive := len(c.MachineryFailures) == 0 && len(c.Inconclusive) == 0
	for _, r := range c.Runs {
		if !r.Exhaustive {
			exhaustive = false
		}
	}
	c.Exhaustive = exhaustive
	repoN := 0
	var names []string
	for k, pos := range c.funcs {
		if strings.Contains(pos, repoDir+"/") && !strings.Contains(pos, "zz_verif_") && !strings.Contains(pos, "internal/verifrt") {
			repoN++
			names = append(names, k+" @ "+strings.TrimPrefix(pos, repoDir+"/"))
		}
	}
	sort.Strings(names)
	c.FunctionsEncoded = names
	c.FunctionsEncodedN = len(c.funcs)
	c.RepoFunctionsN = repoN
	c.Evaluations = c.States
	// distinct non-trivial: every explored path has a distinct decision prefix (a distinct
	// class of inputs); it is non-trivial when at least one decision was taken on it.
	c.DistinctNontrivial = 0
	for _, r := range c.Runs {
		if r.Decisions > 0 {
			c.DistinctNontrivial += r.Paths
		}
	}
	c.Rule = "a case is one feasible path (a distinct list of branch decisions, i.e. a distinct class of inputs) of a harness run; counted non-trivial when the run took at least one symbolic decision"
	c.Explanation = fmt.Sprintf("Each run symbolically executes the named harness entry against the real functions; every feasible path within the bound was enumerated (%d paths, %d branch decisions) and every obligation on it sent to the solver (%d of %d discharged as unsat). Counterexamples are replayed natively before being reported.",
		c.States, c.Transitions, c.Discharged, c.Obligations)
	if len(c.Samples) == 0 {
		c.Samples = []any{"(no completed path was sampled)"}
	}
	for _, k := range sortedKeys(ev.assume) {
		ev.Assumptions = append(ev.Assumptions, fmt.Sprintf("assume %s (x%d)", k, ev.assume[k]))
	}
	for _, k := range sortedKeys(ev.stubs) {
		ev.Assumptions = append(ev.Assumptions, fmt.Sprintf("stub %s (x%d)", k, ev.stubs[k]))
	}
	ev.Assumptions = append(ev.Assumptions, ev.spec.Stubs...)
	ev.Assumptions = append(ev.Assumptions,
		"engine: /verif/engine (modified golang.org/x/tools/go/ssa/interp v0.29.0) executes SSA faithfully; validated by per-run native differential replay of sampled paths and by the conformance corpus",
		"package-level state of the standard library and third-party packages is not mutated in behaviour-relevant ways between paths; package initialisers run lazily, once per worker",
		"sync.Pool is modelled as always empty; logging is a no-op; time is not observed")
}

func (ev *evidence) write() error {
	dir := filepath.Join(verifDir, "evidence")
	os.MkdirAll(dir, 0o755)
	b, err := json.MarshalIndent(ev, "", " ")
	if err != nil {
		return err
	}
	return os.WriteFile(filepath.Join(dir, ev.PropertyID+".json"), append(b, '\n'), 0o644)
}
