package main

import (
	"bufio"
	"bytes"
	"context"
	"encoding/json"
	"fmt"
	"os"
	"os/exec"
	"path/filepath"
	"regexp"
	"sort"
	"strings"
	"time"
)

type nativeResult struct {
	File    string   `json:"file"`
	Result  string   `json:"result"` // ok | panic | assume-failed | error | missing
	Msg     string   `json:"msg"`
	Failed  []string `json:"failed"`
	Observe []string `json:"observe"`
	Tags    []string `json:"tags"`
}

var pkgClause = regexp.MustCompile(`(?m)^package\s+(\w+)`)

// nativeTestSource generates the in-package test that replays files natively.
func nativeTestSource(hdir string, unit Unit) (string, error) {
	data, err := os.ReadFile(filepath.Join(hdir, unit.Files[0]))
	if err != nil {
		return "", err
	}
	m := pkgClause.FindSubmatch(data)
	if m == nil {
		return "", fmt.Errorf("no package clause in %s", unit.Files[0])
	}
	entries := map[string]bool{}
	for _, r := range unit.Runs {
		entries[r.Entry] = true
	}
	var names []string
	for e := range entries {
		names = append(names, e)
	}
	sort.Strings(names)
	var sb strings.Builder
	fmt.Fprintf(&sb, "package %s\n\nimport (\n\t\"testing\"\n\n\t\"github.com/google/osv-scalibr/internal/verifrt\"\n)\n\n", m[1])
	sb.WriteString("func TestVerifReplay(t *testing.T) {\n\tverifrt.ReplayEntries(map[string]func(){\n")
	for _, n := range names {
		fmt.Fprintf(&sb, "\t\t%q: %s,\n", n, n)
	}
	sb.WriteString("\t})\n}\n")
	return sb.String(), nil
}

// nativeReplay writes one file per pending replay and runs them all in a single
// `go test -overlay` of the package under test (built from /repo's working tree).
func nativeReplay(id, hdir string, ui int, unit Unit, pending []replayFile, replayDir string) ([]nativeResult, error) {
	files := make([]string, len(pending))
	for k, rf := range pending {
		name := fmt.Sprintf("u%d-%03d-%s.json", ui, k, rf.Kind)
		files[k] = filepath.Join(replayDir, name)
		b, _ := json.MarshalIndent(rf, "", " ")
		if err := os.WriteFile(files[k], append(b, '\n'), 0o644); err != nil {
			return nil, err
		}
	}
	out, err := runNative(id, hdir, unit, files, 15*time.Minute)
	if err != nil {
		return nil, err
	}
	byFile := map[string]nativeResult{}
	sc := bufio.NewScanner(bytes.NewReader(out))
	sc.Buffer(make([]byte, 1<<20), 1<<26)
	for sc.Scan() {
		line := sc.Text()
		i := strings.Index(line, "VERIF-NATIVE ")
		if i < 0 {
			continue
		}
		var nr nativeResult
		if err := json.Unmarshal([]byte(line[i+len("VERIF-NATIVE "):]), &nr); err == nil {
			byFile[nr.File] = nr
		}
	}
	res := make([]nativeResult, len(pending))
	for k, f := range files {
		nr, ok := byFile[f]
		if !ok {
			nr = nativeResult{File: f, Result: "missing", Msg: "no native result (test binary crashed or timed out?)"}
			// a hard crash (fatal error, stack overflow, timeout) of the test binary while replaying this file
			if idx := bytes.Index(out, []byte("VERIF-NATIVE-START "+f)); idx >= 0 {
				tail := out[idx:]
				if len(tail) > 600 {
					tail = tail[:600]
				}
				nr.Result = "panic"
				nr.Msg = "process died while replaying: " + string(tail)
			}
		}
		res[k] = nr
	}
	return res, nil
}

func runNative(id, hdir string, unit Unit, files []string, timeout time.Duration) ([]byte, error) {
	ov, err := overlayFor(id, hdir, unit)
	if err != nil {
		return nil, err
	}
	tmp, err := os.MkdirTemp("", "verif-native-")
	if err != nil {
		return nil, err
	}
	defer os.RemoveAll(tmp)
	src, err := nativeTestSource(hdir, unit)
	if err != nil {
		return nil, err
	}
	testFile := filepath.Join(tmp, "replay_test.go")
	if err := os.WriteFile(testFile, []byte(src), 0o644); err != nil {
		return nil, err
	}
	ov[filepath.Join(repoDir, unit.Dir, "zz_verif_replay_test.go")] = testFile
	ovJSON, _ := json.Marshal(map[string]any{"Replace": ov})
	ovFile := filepath.Join(tmp, "overlay.json")
	os.WriteFile(ovFile, ovJSON, 0o644)
	listFile := filepath.Join(tmp, "files.txt")
	os.WriteFile(listFile, []byte(strings.Join(files, "\n")+"\n"), 0o644)

	// build the test binary, then run it ourselves (the package directory may exist only in the overlay)
	bin := filepath.Join(tmp, "replay.test")
	args := []string{"test", "-c", "-vet=off", "-overlay", ovFile, "-o", bin}
	if unit.Tags != "" {
		args = append(args, "-tags="+unit.Tags)
	}
	args = append(args, "./"+unit.Dir)
	build := exec.Command(goBin, args...)
	build.Dir = repoDir
	build.Env = goEnv()
	if out, err := build.CombinedOutput(); err != nil {
		return out, fmt.Errorf("native harness build failed: %v\n%s", err, tail(out, 3000))
	}
	ctx, cancel := context.WithTimeout(context.Background(), timeout)
	defer cancel()
	cmd := exec.CommandContext(ctx, bin, "-test.run", "^TestVerifReplay$", "-test.v", "-test.timeout", "12m")
	cmd.Dir = filepath.Join(repoDir, unit.Dir)
	if st, err := os.Stat(cmd.Dir); err != nil || !st.IsDir() {
		cmd.Dir = repoDir
	}
	cmd.Env = append(goEnv(), "VERIF_REPLAY_LIST="+listFile)
	out, _ := cmd.CombinedOutput()
	// a failing/crashing test is not an error of the machinery: results are parsed from the output
	return out, nil
}

func tail(b []byte, n int) string {
	if len(b) > n {
		b = b[len(b)-n:]
	}
	return string(b)
}

// replayMain replays one counterexample file natively and reports the outcome.
func replayMain(file string) int {
	abs, _ := filepath.Abs(file)
	data, err := os.ReadFile(abs)
	if err != nil {
		fmt.Println("cannot read replay file:", err)
		return 2
	}
	var rf replayFile
	if err := json.Unmarshal(data, &rf); err != nil {
		fmt.Println("bad replay file:", err)
		return 2
	}
	spec, hdir, err := loadSpec(rf.Property)
	if err != nil {
		fmt.Println(err)
		return 2
	}
	if rf.Unit >= len(spec.Units) {
		fmt.Println("replay file names a unit the spec does not have")
		return 2
	}
	out, err := runNative(rf.Property, hdir, spec.Units[rf.Unit], []string{abs}, 15*time.Minute)
	if err != nil {
		fmt.Println(err)
		return 2
	}
	fmt.Printf("replaying %s\n  entry=%s params=%v\n  inputs: %s\n  expected: %s %q\n", abs, rf.Entry, rf.Params, readableDocs(rf.Inputs, rf.Docs), rf.Kind, rf.Label)
	for _, line := range strings.Split(string(out), "\n") {
		if i := strings.Index(line, "VERIF-NATIVE "); i >= 0 && !strings.Contains(line, "VERIF-NATIVE-START") {
			var nr nativeResult
			if json.Unmarshal([]byte(line[i+len("VERIF-NATIVE "):]), &nr) == nil {
				fmt.Printf("  native: result=%s failed=%v msg=%s\n", nr.Result, nr.Failed, nr.Msg)
				hit := (nr.Result == "panic" && rf.Kind == "panic") || (nr.Result == "timeout" && rf.Kind == "hang")
				for _, l := range nr.Failed {
					if l == rf.Label {
						hit = true
					}
				}
				if hit {
					fmt.Printf("VIOLATION property=%s replay=%s\n", rf.Property, abs)
					return 1
				}
				fmt.Println("  the recorded failure does not occur on this tree")
				return 0
			}
		}
	}
	fmt.Printf("no native result; output tail:\n%s\n", tail(out, 1500))
	return 2
}
