#!/bin/sh
# Re-runs every claimed property's quick check on /repo as it is and leaves the evidence files
# those runs wrote (the committed evidence must describe a quick run of the committed tree).
cd "$(dirname "$0")/.." || exit 2
ids=$(python3 -c "import json; print(' '.join(c['property_id'] for c in json.load(open('MANIFEST.json'))['checks']))")
rc=0
for id in $ids; do
  start=$(date +%s)
  out=$(./check "$id" quick 2>&1); code=$?
  end=$(date +%s)
  echo "$id exit=$code $((end-start))s $(echo "$out" | grep -c '^KNOWN-FINDING') known $(echo "$out" | grep -E 'INCONCLUSIVE|MACHINERY|ENGINE-MISMATCH|^VIOLATION' | head -2 | tr '\n' ' ')"
  [ $code -ne 0 ] && rc=1
done
exit $rc
