#!/usr/bin/env python3
"""Regenerates MANIFEST.json from tools/manifest_src.json (claimed checks) and the property list."""
import json, os
here = os.path.dirname(os.path.abspath(__file__))
root = os.path.dirname(here)
src = json.load(open(os.path.join(here, 'manifest_src.json')))
props = [json.loads(l)['id'] for l in open(os.path.join(root, 'properties.jsonl'))]
claimed = src['claimed']
na = src['not_applicable']
checks = []
for pid in props:
    if pid in claimed:
        c = claimed[pid]
        checks.append({
            "property_id": pid,
            "quick_cmd": f"./check {pid} quick",
            "thorough_cmd": f"./check {pid} thorough",
            "evidence_file": f"/verif/evidence/{pid}.json",
            "replay_cmd_template": "./check replay {path}",
            "engine": "symgo",
            "level_claimed": {"category": "model_checking", "text": c['text'], "design_ref": c.get('design_ref', 'DESIGN.md §6 ' + pid)},
            "level_note": c['note'],
            "technique": "solver-based bounded symbolic execution of the repo's Go SSA (z3 verdict per branch and per obligation; native replay of counterexamples)",
        })
missing = [p for p in props if p not in claimed and p not in na]
assert not missing, missing
m = {
    "version": 1,
    "setup_cmd": "./setup.sh",
    "hooks": {
        "guard": "verif",
        "enable": "none needed: harnesses and the verifrt runtime are injected with go/packages and `go test -overlay` overlays (files named zz_verif_*.go, package internal/verifrt); nothing is written under /repo",
        "baseline_off_cmd": "cd /repo && GOFLAGS=-mod=mod go test -vet=off -count=1 -timeout 25m ./...",
        "source_commits": [],
        "add_only": True,
    },
    "engines": [{"name": "symgo", "path": "/verif/engine", "serves_properties": sorted(claimed.keys()),
                 "kind_free_text": "symbolic executor for Go SSA (modified golang.org/x/tools/go/ssa/interp v0.29.0): symbolic bytes/integers/booleans as QF_BV terms, fork by re-execution over decision prefixes, z3 5.1.0 over a pipe, 14 worker processes, native replay through go test -overlay"}],
    "checks": checks,
    "not_applicable": [{"property_id": p, "reason": na[p]} for p in props if p in na],
    "notes": src.get('notes', ''),
}
json.dump(m, open(os.path.join(root, 'MANIFEST.json'), 'w'), indent=1)
print("wrote MANIFEST.json:", len(checks), "checks,", len(m['not_applicable']), "not applicable")
