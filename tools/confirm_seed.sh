#!/bin/sh
# usage: tools/confirm_seed.sh <seeddir> <pkgdir-for-demo> <TestName> "<packages whose existing tests must stay green>"
# Confirms in a scratch worktree that (i) the patch applies and the existing tests pass with it,
# (ii) the demo fails with the patch and (iii) passes without it. Prints CONFIRMED or the reason.
set -u
seed="$1"; dir="$2"; tname="$3"; pkgs="$4"
wt=/tmp/confirm-wt-$$
export GOFLAGS=-mod=mod GOPROXY=off
git -C /repo worktree add -q "$wt" HEAD || exit 2
cleanup() { git -C /repo worktree remove --force "$wt" >/dev/null 2>&1; }
cd "$wt"
git apply "$seed/patch.diff" || { echo "NOT-CONFIRMED: patch does not apply"; cleanup; exit 1; }
base=$(cd /repo && go test -count=1 $pkgs 2>&1 | grep -E "^(--- FAIL|FAIL|ok)" | sed -E 's/\(?[0-9.]+s\)?$//' | sort)
with=$(go test -count=1 $pkgs 2>&1 | grep -E "^(--- FAIL|FAIL|ok)" | sed -E 's/\(?[0-9.]+s\)?$//' | sort)
if [ "$base" != "$with" ]; then echo "NOT-CONFIRMED: existing tests differ with the patch"; echo "$with" | head; cleanup; exit 1; fi
cp "$seed/demo_test.go" "$dir/zz_seed_demo_test.go"
if go test -count=1 -run "^$tname\$" "./$dir" >/tmp/confirm.$$ 2>&1; then echo "NOT-CONFIRMED: demo passes WITH the patch"; cleanup; exit 1; fi
grep -q "^--- FAIL\|^FAIL" /tmp/confirm.$$ || { echo "NOT-CONFIRMED: demo did not run"; tail -5 /tmp/confirm.$$; cleanup; exit 1; }
git apply -R "$seed/patch.diff"
if ! go test -count=1 -run "^$tname\$" "./$dir" >/tmp/confirm.$$ 2>&1; then echo "NOT-CONFIRMED: demo fails WITHOUT the patch"; tail -5 /tmp/confirm.$$; cleanup; exit 1; fi
echo "CONFIRMED: existing tests unchanged with the patch; demo fails with it, passes without"
rm -f /tmp/confirm.$$
cleanup
