#!/usr/bin/env python3
"""store_seed.py <seed-src-dir> <name> <property> <demo-dir> <TestName> "<needs>" "<caught-by>" "<ran>" — copies a confirmed seeded change to /verif/seeded/<name>/"""
import sys, os, shutil, json
src, name, prop, demodir, tname, needs, caught, ran = sys.argv[1:9]
dst = os.path.join('/verif/seeded', name)
os.makedirs(dst, exist_ok=True)
shutil.copy(os.path.join(src, 'patch.diff'), os.path.join(dst, 'patch.diff'))
shutil.copy(os.path.join(src, 'demo_test.go'), os.path.join(dst, 'demo_test.go.txt'))
notes = open(os.path.join(src, 'notes.txt')).read() if os.path.exists(os.path.join(src, 'notes.txt')) else ''
meta = {"breaks_property": prop, "needs_to_manifest": needs, "demonstration": {"file": "demo_test.go.txt (copy to %s/ as a _test.go file)" % demodir, "test": tname},
        "confirmed": "tools/confirm_seed.sh: patch applies to a scratch worktree, the existing tests of the touched packages give the same results with it, the demo fails with it and passes without it",
        "caught_by": caught, "what_was_run": ran, "author_notes": notes}
json.dump(meta, open(os.path.join(dst, 'meta.json'), 'w'), indent=1)
print("stored", dst)
