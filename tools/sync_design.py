#!/usr/bin/env python3
"""Regenerates the lists of DESIGN.md that mirror committed data: the fixed / recorded findings (§8,
from known_findings.json) and the seed table (§9, from seeded/*/meta.json)."""
import json, glob, re
d = open('/verif/DESIGN.md').read()
k = json.load(open('/verif/known_findings.json'))
# fixed list
a = d.index('* fixed: property=')
b = d.index('**Recorded, not repaired**')
d = d[:a] + ''.join('* %s\n' % f for f in k['fixed']) + '\n' + d[b:]
# recorded list
a = d.index('report anything else):\n\n') + len('report anything else):\n\n')
b = d.index('Why not repaired:')
d = d[:a] + ''.join('* **%s** (%s): %s\n' % (f['id'], f['property'], f['what']) for f in k['findings']) + '\n' + d[b:]
# seed table
rows = []
def key(p):
    n = p.split('/')[-2]; c, i = n.split('-'); return (c, int(i))
missed = caught = 0
for m in sorted(glob.glob('/verif/seeded/*/meta.json'), key=key):
    j = json.load(open(m)); name = m.split('/')[-2]
    rows.append('| %s | %s | %s |' % (name, j['needs_to_manifest'].replace('|', '/'), j['caught_by'].replace('|', '/')))
    if j['caught_by'].startswith('NOT CAUGHT'): missed += 1
    else: caught += 1
a = d.index('| seed | needs to manifest | caught by |')
b = d.index('---------------------------------------------------------------------------------------------------', a)
d = d[:a] + '| seed | needs to manifest | caught by |\n|------|-------------------|-----------|\n' + '\n'.join(rows) + '\n\n' + d[b:]
open('/verif/DESIGN.md', 'w').write(d)
print('fixed', len(k['fixed']), 'findings', len(k['findings']), 'seeds', len(rows), 'caught', caught, 'not caught', missed)
