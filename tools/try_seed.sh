#!/bin/sh
# usage: tools/try_seed.sh <patch.diff> <ID> [tier]
# Runs the check of <ID> against a scratch worktree of /repo with the seeded change applied
# (VERIF_REPO developer mode: /repo itself is not touched, no evidence is written), then removes
# the worktree. Equivalent to: git -C /repo apply <patch>; ./check <ID> <tier>; git -C /repo checkout -- .
set -u
patch=$(readlink -f "$1"); id="$2"; tier="${3:-quick}"
wt=/tmp/tryseed-$$
out=/tmp/try_seed.$id.$$.out
git -C /repo worktree add -q --detach "$wt" HEAD || exit 2
cleanup() { git -C /repo worktree remove --force "$wt" >/dev/null 2>&1; rm -rf "$wt.verif-out"; }
( cd "$wt" && git apply "$patch" ) || { echo "patch does not apply"; cleanup; exit 2; }
cd /verif && VERIF_REPO="$wt" ./bin/verif check "$id" "$tier" > "$out" 2>&1
code=$?
cleanup
echo "exit=$code  (output: $out)"
grep -c "^VIOLATION" "$out" | sed 's/^/violations: /'
grep "^VIOLATION" -A3 "$out" | grep "label=" | sed 's/.*label=//' | sort | uniq -c | sort -rn | head -8
grep "MACHINERY\|ENGINE-MISMATCH\|INCONCLUSIVE\|UNCONFIRMED" "$out" | cut -c1-200 | head -5
