#!/bin/sh
# usage: tools/try_seed.sh <patch.diff> <ID> [tier]   -- applies a seeded change to /repo, runs the check, reverts
set -u
patch="$1"; id="$2"; tier="${3:-quick}"
cd /repo || exit 2
if ! git diff --quiet; then echo "repo not clean"; exit 2; fi
git apply "$patch" || { echo "patch does not apply"; exit 2; }
cd /verif && ./bin/verif check "$id" "$tier" > /tmp/try_seed.out 2>&1
code=$?
git -C /repo checkout -- .
echo "exit=$code"
grep -c "^VIOLATION" /tmp/try_seed.out | sed 's/^/violations: /'
grep "^VIOLATION" -A3 /tmp/try_seed.out | grep "label=" | sed 's/.*label=//' | sort | uniq -c | head -8
grep "MACHINERY\|ENGINE-MISMATCH\|INCONCLUSIVE\|UNCONFIRMED" /tmp/try_seed.out | cut -c1-200 | head -5
