module vosdiff

go 1.24.0
