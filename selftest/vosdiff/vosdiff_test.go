package vos

// Differential test of the virtual OS (vos.go, copied here by setup.sh) against the real
// package os: the same random operation sequence is applied to both; results must agree in
// success/failure, in the error class (not-exist / exist), and in every value returned.

import (
	"errors"
	"fmt"
	"io/fs"
	"math/rand"
	"os"
	"path/filepath"
	"sort"
	"strings"
	"testing"
)

var segs = []string{"a", "b", "aa", "l", "d", "..", "."}

var linkTargets = []string{"a", "b", "aa", "l", "d", ".", "..", "a/b", "../d", "l/../a", "d/../a", "./l/b"}

func randPath(r *rand.Rand) string {
	n := 1 + r.Intn(3)
	var parts []string
	for i := 0; i < n; i++ {
		parts = append(parts, segs[r.Intn(len(segs))])
	}
	// a trailing "." or ".." component is outside the virtual OS's model (see vos.go: walk)
	for parts[n-1] == "." || parts[n-1] == ".." {
		parts[n-1] = segs[r.Intn(5)]
	}
	return strings.Join(parts, "/")
}

func class(err error) string {
	switch {
	case err == nil:
		return "ok"
	case errors.Is(err, fs.ErrNotExist):
		return "notexist"
	case errors.Is(err, fs.ErrExist):
		return "exist"
	default:
		return "error"
	}
}

func names(ents []fs.DirEntry) string {
	var out []string
	for _, e := range ents {
		kind := "f"
		if e.IsDir() {
			kind = "d"
		} else if e.Type()&fs.ModeSymlink != 0 {
			kind = "l"
		}
		out = append(out, kind+e.Name())
	}
	sort.Strings(out)
	return strings.Join(out, ",")
}

func TestVosAgainstOS(t *testing.T) {
	sequences, steps := 300, 40
	mismatches := 0
	for seq := 0; seq < sequences; seq++ {
		r := rand.New(rand.NewSource(int64(seq)))
		realRoot := t.TempDir()
		realRoot, _ = filepath.EvalSymlinks(realRoot)
		// the sandbox is nested so that ".." through symbolic links (physical resolution) stays
		// within directories that look the same on both sides
		realRoot = filepath.Join(realRoot, "s1/s2/s3/s4")
		os.MkdirAll(realRoot, 0o755)
		v := New()
		v.MkdirAll("/sb/s1/s2/s3/s4", 0o755)
		// joined without cleaning: "l/.." must reach the kernel (and the virtual OS) as written
		rp := func(p string) string { return realRoot + "/" + p }
		vp := func(p string) string { return "/sb/s1/s2/s3/s4/" + p }
		// keep operations inside the sandbox: a path that lexically leaves it is skipped
		inside := func(p string) bool {
			c := filepath.Clean("/" + p)
			_ = c
			depth := 0
			for _, s := range strings.Split(p, "/") {
				switch s {
				case "..":
					depth--
				case ".":
				default:
					depth++
				}
				if depth < 0 {
					return false
				}
			}
			return true
		}
		var log []string
		for step := 0; step < steps; step++ {
			p := randPath(r)
			if !inside(p) {
				continue
			}
			op := r.Intn(11)
			var got, want string
			switch op {
			case 0:
				got, want = class(v.Mkdir(vp(p), 0o755)), class(os.Mkdir(rp(p), 0o755))
			case 1:
				got, want = class(v.MkdirAll(vp(p), 0o755)), class(os.MkdirAll(rp(p), 0o755))
			case 2:
				data := []byte(fmt.Sprint("data", step))
				got, want = class(v.WriteFile(vp(p), data, 0o644)), class(os.WriteFile(rp(p), data, 0o644))
			case 3:
				// symlink with a relative target inside the sandbox
				target := linkTargets[r.Intn(len(linkTargets))]
				got, want = class(v.Symlink(target, vp(p))), class(os.Symlink(target, rp(p)))
			case 4:
				got, want = class(v.Remove(vp(p))), class(os.Remove(rp(p)))
			case 5:
				if filepath.Clean(p) == "." {
					continue
				}
				got, want = class(v.RemoveAll(vp(p))), class(os.RemoveAll(rp(p)))
			case 6:
				a, e1 := v.Stat(vp(p))
				b, e2 := os.Stat(rp(p))
				got, want = class(e1), class(e2)
				if e1 == nil && e2 == nil {
					got += fmt.Sprint(a.IsDir(), a.Mode().IsRegular())
					want += fmt.Sprint(b.IsDir(), b.Mode().IsRegular())
					if b.Mode().IsRegular() {
						got += fmt.Sprint(a.Size())
						want += fmt.Sprint(b.Size())
					}
				}
			case 7:
				a, e1 := v.Lstat(vp(p))
				b, e2 := os.Lstat(rp(p))
				got, want = class(e1), class(e2)
				if e1 == nil && e2 == nil {
					got += fmt.Sprint(a.Mode().Type())
					want += fmt.Sprint(b.Mode().Type())
				}
			case 8:
				a, e1 := v.Readlink(vp(p))
				b, e2 := os.Readlink(rp(p))
				got, want = class(e1)+a, class(e2)+b
			case 9:
				a, e1 := v.ReadFile(vp(p))
				b, e2 := os.ReadFile(rp(p))
				got, want = class(e1)+string(a), class(e2)+string(b)
			case 10:
				a, e1 := v.ReadDir(vp(p))
				b, e2 := os.ReadDir(rp(p))
				got, want = class(e1)+names(a), class(e2)+names(b)
			}
			log = append(log, fmt.Sprintf("op%d %s -> vos %s | os %s", op, p, got, want))
			if got != want {
				mismatches++
				if mismatches <= 5 {
					t.Errorf("sequence %d step %d: mismatch\n%s", seq, step, strings.Join(log[max(0, len(log)-8):], "\n"))
				}
				break
			}
		}
	}
	t.Logf("%d sequences x %d steps, %d mismatches", sequences, steps, mismatches)
}
