#!/bin/sh
# Self-tests of the machinery (run by setup.sh): (1) the conformance corpus - the engine's
# observations on concrete and symbolic inputs must equal the native run's; (2) the virtual OS
# against the real package os on random operation sequences.
cd "$(dirname "$0")" || exit 2
GO=/root/go/pkg/mod/golang.org/toolchain@v0.0.1-go1.24.0.linux-amd64/bin/go
export GOFLAGS=-mod=mod GOPROXY=off GOTOOLCHAIN=local
out=$(./bin/verif check SELFTEST quick 2>&1); code=$?
rm -f evidence/SELFTEST.json
if [ $code -ne 0 ] || echo "$out" | grep -q "INCONCLUSIVE\|ENGINE-MISMATCH"; then echo "$out" | tail -20; echo "SELFTEST: conformance corpus FAILED"; exit 1; fi
echo "SELFTEST: conformance corpus ok ($(echo "$out" | grep -c '^run') runs)"
cp rt/vos/vos.go selftest/vosdiff/vos.go
if ! (cd selftest/vosdiff && "$GO" test -count=1 . >/tmp/vosdiff.$$ 2>&1); then tail -20 /tmp/vosdiff.$$; rm -f /tmp/vosdiff.$$; echo "SELFTEST: virtual OS differential test FAILED"; exit 1; fi
rm -f /tmp/vosdiff.$$
echo "SELFTEST: virtual OS agrees with package os"
