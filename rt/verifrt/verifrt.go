// Package verifrt is the harness runtime. Under the symbolic executor
// (/verif/engine) every function here is an intrinsic: inputs are SMT
// variables, Assert is a solver query over the path condition, And/Or/Ite
// build terms without forking. Compiled natively (replay) the same functions
// feed recorded input values and check the obligations concretely.
//
// The package is injected into the module by overlay as
// github.com/google/osv-scalibr/internal/verifrt; nothing is written under /repo.
package verifrt

import (
	"bytes"
	"encoding/json"
	"fmt"
	"os"
	"runtime"
	"strconv"
	"strings"
	"sync"
	"time"

	"github.com/BurntSushi/toml"
)

// Input is one recorded input value (creation order).
type Input struct {
	Name string `json:"name"`
	Kind string `json:"kind"`
	Val  uint64 `json:"val"`
}

// Replay is the native run state.
type Replay struct {
	Inputs []Input           `json:"inputs"`
	Params map[string]string `json:"params"`
	// Docs: documents built by Arbitrary under the symbolic executor, rendered as text
	Docs    map[string]string `json:"docs"`
	pos     int
	racy    bool
	rng     uint64
	Failed  []string `json:"-"`
	Observe []string `json:"-"`
	Reached []string `json:"-"`
	Tags    []string `json:"-"`
}

var cur = &Replay{Params: map[string]string{}}

// Load installs the inputs and parameters for a native run.
func Load(inputs []Input, params map[string]string) {
	cur = &Replay{Inputs: inputs, Params: params}
	if cur.Params == nil {
		cur.Params = map[string]string{}
	}
}

// LoadJSON installs a replay from JSON ({"inputs":[...],"params":{...}}).
func LoadJSON(data []byte) error {
	r := &Replay{}
	if err := json.Unmarshal(data, r); err != nil {
		return err
	}
	if r.Params == nil {
		r.Params = map[string]string{}
	}
	cur = r
	return nil
}

// State returns the state of the current native run.
func State() *Replay { return cur }

var mu sync.Mutex

func next(name, kind string) uint64 {
	mu.Lock()
	defer mu.Unlock()
	// inputs of lazily built documents (Arbitrary) are not consumed in sequence: natively the
	// rendered document (Document) takes their place
	for cur.pos < len(cur.Inputs) && strings.HasPrefix(cur.Inputs[cur.pos].Kind, "lz:") {
		cur.pos++
	}
	if cur.pos >= len(cur.Inputs) {
		// inputs past the recorded ones were never constrained: any value will do
		cur.pos++
		return 0
	}
	in := cur.Inputs[cur.pos]
	cur.pos++
	if in.Kind != kind {
		panic(fmt.Sprintf("verifrt: replay mismatch at input %d: recorded %s %q, harness asks %s %q", cur.pos-1, in.Kind, in.Name, kind, name))
	}
	return in.Val
}

// Native reports whether the harness runs natively (replay) rather than symbolically.
func Native() bool { return true }

// Byte returns an arbitrary byte.
func Byte(name string) byte { return byte(next(name, "byte")) }

// Bool returns an arbitrary boolean.
func Bool(name string) bool { return next(name, "bool") != 0 }

// Int returns an arbitrary 64-bit integer.
func Int(name string) int { return int(int64(next(name, "int"))) }

// IntRange returns an arbitrary integer in [lo,hi].
func IntRange(name string, lo, hi int) int { return int(int64(next(name, "int"))) }

// Bytes returns n arbitrary bytes.
func Bytes(name string, n int) []byte {
	b := make([]byte, n)
	for i := range b {
		b[i] = byte(next(name, "byte"))
	}
	return b
}

// String returns a string of n arbitrary bytes.
func String(name string, n int) string { return string(Bytes(name, n)) }

// Arbitrary stores an arbitrary decoded value of the pointee type into *ptr (symbolic executor
// only: it is called from the decoder stubs that replace json/toml/yaml decoding there; natively
// the real decoder reads the text returned by Document).
func Arbitrary(ptr any, doc, format string) {
	panic("verifrt.Arbitrary is only meaningful under the symbolic executor")
}

// EncodeTree renders a document given as a tree of map[string]any / []any / string / int / bool /
// nil values as text of the format ("json", "toml"). Under the symbolic executor the tree is kept
// for DecodeTree and a placeholder is returned.
func EncodeTree(doc string, tree any, format string) []byte {
	switch format {
	case "json":
		b, err := json.Marshal(tree)
		if err != nil {
			panic(err)
		}
		return b
	case "toml":
		var buf bytes.Buffer
		if err := toml.NewEncoder(&buf).Encode(tree); err != nil {
			panic(err)
		}
		return buf.Bytes()
	}
	panic("verifrt.EncodeTree: unknown format " + format)
}

// DecodeTree assigns the tree registered by EncodeTree to *ptr the way the format's decoder
// would (symbolic executor only: called from decoder stubs).
func DecodeTree(ptr any, doc string) {
	panic("verifrt.DecodeTree is only meaningful under the symbolic executor")
}

// Document returns the text of a document built by Arbitrary (natively: rendered from the
// recorded run; under the symbolic executor: a placeholder, the decoder being stubbed).
func Document(doc string) []byte {
	if s, ok := cur.Docs[doc]; ok {
		return []byte(s)
	}
	return []byte("{}")
}

// Choice returns an arbitrary value in [0,n); every value is explored.
func Choice(name string, n int) int { return int(next(name, "choice")) }

// And, Or, Not, Implies, Iff, Ite build conditions without branching.
func And(a, b bool) bool     { return a && b }
func Or(a, b bool) bool      { return a || b }
func Not(a bool) bool        { return !a }
func Implies(a, b bool) bool { return !a || b }
func Iff(a, b bool) bool     { return a == b }
func Ite(c, a, b bool) bool {
	if c {
		return a
	}
	return b
}

// IteInt is c ? a : b without branching.
func IteInt(c bool, a, b int) int {
	if c {
		return a
	}
	return b
}

// IteByte is c ? a : b without branching.
func IteByte(c bool, a, b byte) byte {
	if c {
		return a
	}
	return b
}

// B2I is 1 for true, 0 for false.
func B2I(b bool) int {
	if b {
		return 1
	}
	return 0
}

// StrEq is a == b as a condition (no branching).
func StrEq(a, b string) bool { return a == b }

// AssumeFailed is the panic value of a native run whose inputs violate an assumption.
type AssumeFailed struct{}

// Assume restricts the inputs.
func Assume(b bool) {
	if !b {
		panic(AssumeFailed{})
	}
}

// Assert states an obligation.
func Assert(b bool, label string) {
	if !b {
		mu.Lock()
		cur.Failed = append(cur.Failed, label)
		mu.Unlock()
	}
}

// Fail is Assert(false, label).
func Fail(label string) { cur.Failed = append(cur.Failed, label) }

// Reach marks a vacuity witness.
func Reach(label string) { cur.Reached = append(cur.Reached, label) }

// TagIf attaches a cause tag to the inputs that satisfy cond.
func TagIf(cond bool, tag string) {
	if cond {
		cur.Tags = append(cur.Tags, tag)
	}
}

// Tag attaches a cause tag to the current path.
func Tag(tag string) { cur.Tags = append(cur.Tags, tag) }

// ObserveInt, ObserveBool, ObserveStr record values compared between the
// symbolic and the native execution of the same inputs.
func ObserveInt(label string, v int) {
	cur.Observe = append(cur.Observe, fmt.Sprintf("%s=%d", label, v))
}
func ObserveBool(label string, v bool) {
	cur.Observe = append(cur.Observe, fmt.Sprintf("%s=%v", label, v))
}
func ObserveStr(label string, v string) {
	cur.Observe = append(cur.Observe, fmt.Sprintf("%s=%q", label, v))
}

// Param returns an integer bound parameter of the run.
func Param(name string) int {
	s, ok := cur.Params[name]
	if !ok {
		panic("verifrt: parameter not set: " + name)
	}
	n, err := strconv.Atoi(s)
	if err != nil {
		panic("verifrt: parameter " + name + " not an integer")
	}
	return n
}

// ParamStr returns a string parameter of the run.
func ParamStr(name string) string {
	s, ok := cur.Params[name]
	if !ok {
		panic("verifrt: parameter not set: " + name)
	}
	return s
}

// Concretize forces a case split over the value (identity natively).
func Concretize(x int) int          { return x }
func ConcretizeByte(x byte) byte    { return x }
func ConcretizeStr(s string) string { return s }
func IsSymbolic(x any) bool         { return false }
func ExploreMapOrder(on bool)       {}

// ExploreSchedules marks the run as schedule dependent: natively the replay is repeated with
// randomised delays at the yield points until the recorded failure shows or the attempts run out.
func ExploreSchedules(on bool) {
	if on {
		mu.Lock()
		cur.racy = true
		mu.Unlock()
	}
}

// Yield is a scheduling point: natively a short random delay.
func Yield() {
	mu.Lock()
	r := cur.racy
	cur.rng = cur.rng*6364136223846793005 + 1442695040888963407
	d := (cur.rng >> 33) % 4
	mu.Unlock()
	if !r {
		return
	}
	switch d {
	case 0:
	case 1:
		runtime.Gosched()
	default:
		time.Sleep(time.Duration(d*50) * time.Microsecond)
	}
}

// MayPanic runs f and reports whether it panicked.
func MayPanic(f func()) (panicked bool) {
	defer func() {
		if r := recover(); r != nil {
			if _, ok := r.(AssumeFailed); ok {
				panic(r)
			}
			panicked = true
		}
	}()
	f()
	return false
}

// ReplayEntries runs, natively, every replay file listed (one per line) in the
// file named by the environment variable VERIF_REPLAY_LIST, dispatching on the
// "entry" field of each, and prints one result line per file. It is called from
// the generated test.
func ReplayEntries(entries map[string]func()) {
	list := os.Getenv("VERIF_REPLAY_LIST")
	if list == "" {
		return
	}
	data, err := os.ReadFile(list)
	if err != nil {
		fmt.Printf("VERIF-NATIVE-ERROR %v\n", err)
		return
	}
	start := 0
	for i := 0; i <= len(data); i++ {
		if i == len(data) || data[i] == '\n' {
			if i > start {
				runFile(string(data[start:i]), entries)
			}
			start = i + 1
		}
	}
}

func runFile(file string, entries map[string]func()) {
	fail := func(msg string) {
		b, _ := json.Marshal(map[string]any{"file": file, "result": "error", "msg": msg})
		fmt.Printf("VERIF-NATIVE %s\n", b)
	}
	data, err := os.ReadFile(file)
	if err != nil {
		fail(err.Error())
		return
	}
	var hdr struct {
		Entry string `json:"entry"`
		Kind  string `json:"kind"`
	}
	if err := json.Unmarshal(data, &hdr); err != nil {
		fail(err.Error())
		return
	}
	entry := entries[hdr.Entry]
	if entry == nil {
		fail("unknown entry " + hdr.Entry)
		return
	}
	if err := LoadJSON(data); err != nil {
		fail(err.Error())
		return
	}
	fmt.Printf("VERIF-NATIVE-START %s\n", file)
	// schedule-dependent runs are repeated with different random delays until an obligation fails
	for attempt := 0; attempt < 400; attempt++ {
		if attempt > 0 {
			if err := LoadJSON(data); err != nil {
				return
			}
			cur.racy = true
		}
		cur.rng = uint64(attempt)*2654435761 + 12345
		// explored paths that passed ("trace") are run once; only recorded failures are searched for
		last := attempt == 399 || hdr.Kind == "trace"
		if runOne(file, entry, last) {
			return
		}
	}
}

// WatchdogSeconds bounds one native replay; a run that does not return in time is reported as "timeout".
var WatchdogSeconds = 20

// runOne runs the entry once and prints the result line; for a schedule-dependent run that
// passed, it prints nothing (and returns false) unless final is set, so that the caller retries.
func runOne(file string, entry func(), final bool) bool {
	res := "ok"
	msg := ""
	st := cur
	done := make(chan struct{})
	go func() {
		defer close(done)
		defer func() {
			if r := recover(); r != nil {
				if _, ok := r.(AssumeFailed); ok {
					res = "assume-failed"
					return
				}
				res = "panic"
				msg = fmt.Sprint(r)
			}
		}()
		entry()
	}()
	select {
	case <-done:
	case <-time.After(time.Duration(WatchdogSeconds) * time.Second):
		// the goroutine cannot be stopped; it keeps spinning while the remaining files are replayed
		b, _ := json.Marshal(map[string]any{"file": file, "result": "timeout", "msg": fmt.Sprintf("no result after %d s", WatchdogSeconds)})
		fmt.Printf("VERIF-NATIVE %s\n", b)
		return true
	}
	mu.Lock()
	racy := st.racy
	failed := append([]string(nil), st.Failed...)
	mu.Unlock()
	if racy && res == "ok" && len(failed) == 0 && !final {
		return false
	}
	out := struct {
		File    string   `json:"file"`
		Result  string   `json:"result"`
		Msg     string   `json:"msg,omitempty"`
		Failed  []string `json:"failed,omitempty"`
		Observe []string `json:"observe,omitempty"`
		Tags    []string `json:"tags,omitempty"`
	}{file, res, msg, failed, st.Observe, st.Tags}
	b, _ := json.Marshal(out)
	fmt.Printf("VERIF-NATIVE %s\n", b)
	return true
}
