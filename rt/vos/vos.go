// Package vos is an in-memory POSIX-like file system (directories, regular
// files, symlinks; symlink resolution with a hop limit) used by harnesses in
// place of package os when the code under test runs inside the symbolic
// executor. It is plain Go and is differential-tested against the real os
// package (selftest). Injected as github.com/google/osv-scalibr/internal/verifrt/vos.
package vos

import (
	"io"
	"io/fs"
	"path"
	"sort"
	"strings"
	"syscall"
	"time"
)

type node struct {
	mode     fs.FileMode // ModeDir, ModeSymlink or 0 (regular) + permission bits
	children map[string]*node
	target   string // symlinks
	data     []byte // regular files (content)
	size     int64  // regular files: logical size (may exceed len(data) and may be symbolic)
}

// FS is one virtual file system instance.
type FS struct {
	root   *node
	Cwd    string
	TmpDir string
	tmpSeq int
	// Mutations lists every path that was created, written, removed or linked, in order.
	Mutations []Mutation
}

// Mutation is one state-changing operation.
type Mutation struct {
	Op   string // mkdir | create | write | remove | symlink
	Path string // cleaned absolute path as given (before symlink resolution of the parent)
	Real string // path after resolving symlinks in the parent directories
}

// New returns a file system holding /, /tmp and /work (the working directory).
func New() *FS {
	v := &FS{root: &node{mode: fs.ModeDir | 0o755, children: map[string]*node{}}, Cwd: "/work", TmpDir: "/tmp"}
	v.MkdirAll("/tmp", 0o777)
	v.MkdirAll("/work", 0o755)
	v.Mutations = nil
	return v
}

func (v *FS) abs(name string) string {
	if name == "" {
		return ""
	}
	if !strings.HasPrefix(name, "/") {
		name = v.Cwd + "/" + name
	}
	return path.Clean(name)
}

func pathErr(op, name string, err error) error {
	return &fs.PathError{Op: op, Path: name, Err: err}
}

const maxHops = 40

// walk resolves name the way the kernel does: component by component, a symbolic link is
// expanded in place and ".." is taken relative to the directory physically reached (so
// "link/.." is the parent of the link's target, not of the link). Not modelled: the kernel's
// special errors for a path whose last component is "." or ".." (EINVAL/ENOTEMPTY on removal,
// ENOENT for "missing/."); such a component is simply followed. If followLast is false the final
// component is not dereferenced. It returns the node (nil if missing), its parent, the final
// name and the symlink-free path of the parent directory.
func (v *FS) walk(op, name string, followLast bool) (n *node, parent *node, base string, realParent string, err error) {
	if name == "" {
		return nil, nil, "", "", pathErr(op, name, syscall.ENOENT)
	}
	full := name
	if !strings.HasPrefix(full, "/") {
		full = v.Cwd + "/" + full
	}
	split := func(p string) []string {
		var out []string
		for _, c := range strings.Split(p, "/") {
			if c != "" && c != "." {
				out = append(out, c)
			}
		}
		return out
	}
	type ent struct {
		n    *node
		name string
	}
	stack := []ent{{v.root, ""}}
	realOf := func(st []ent) string {
		p := "/"
		for _, e := range st[1:] {
			p = path.Join(p, e.name)
		}
		return p
	}
	comps := split(full)
	hops := 0
	for len(comps) > 0 {
		c := comps[0]
		comps = comps[1:]
		last := len(comps) == 0
		cur := stack[len(stack)-1].n
		if !cur.mode.IsDir() {
			return nil, nil, "", "", pathErr(op, name, syscall.ENOTDIR)
		}
		if c == ".." {
			if len(stack) > 1 {
				stack = stack[:len(stack)-1]
			}
			continue
		}
		child := cur.children[c]
		if child == nil {
			if last {
				return nil, cur, c, realOf(stack), nil
			}
			return nil, nil, "", "", pathErr(op, name, syscall.ENOENT)
		}
		if child.mode&fs.ModeSymlink != 0 && (!last || followLast) {
			hops++
			if hops > maxHops {
				return nil, nil, "", "", pathErr(op, name, syscall.ELOOP)
			}
			if child.target == "" {
				return nil, nil, "", "", pathErr(op, name, syscall.ENOENT)
			}
			if strings.HasPrefix(child.target, "/") {
				stack = stack[:1]
			}
			comps = append(split(child.target), comps...)
			continue
		}
		stack = append(stack, ent{child, c})
	}
	top := stack[len(stack)-1]
	if len(stack) == 1 {
		return v.root, nil, "/", "/", nil
	}
	return top.n, stack[len(stack)-2].n, top.name, realOf(stack[:len(stack)-1]), nil
}

func (v *FS) note(op, name, realParent, base string) {
	v.Mutations = append(v.Mutations, Mutation{Op: op, Path: v.abs(name), Real: path.Join(realParent, base)})
}

// MkdirTemp creates a new directory in dir (TmpDir if empty).
func (v *FS) MkdirTemp(dir, pattern string) (string, error) {
	if dir == "" {
		dir = v.TmpDir
	}
	v.tmpSeq++
	suffix := string(rune('0' + v.tmpSeq%10))
	if v.tmpSeq >= 10 {
		suffix = string(rune('0'+v.tmpSeq/10%10)) + suffix
	}
	name := pattern + suffix
	if i := strings.LastIndex(pattern, "*"); i >= 0 {
		name = pattern[:i] + suffix + pattern[i+1:]
	}
	p := path.Join(dir, name)
	if err := v.Mkdir(p, 0o700); err != nil {
		return "", err
	}
	return p, nil
}

// Mkdir creates one directory.
func (v *FS) Mkdir(name string, perm fs.FileMode) error {
	n, parent, base, rp, err := v.walk("mkdir", name, false)
	if err != nil {
		return err
	}
	if n != nil {
		return pathErr("mkdir", name, syscall.EEXIST)
	}
	parent.children[base] = &node{mode: fs.ModeDir | perm.Perm(), children: map[string]*node{}}
	v.note("mkdir", name, rp, base)
	return nil
}

// MkdirAll creates a directory and any missing parents (same algorithm as os.MkdirAll: the
// parent is the name with its last element cut off, not cleaned).
func (v *FS) MkdirAll(name string, perm fs.FileMode) error {
	n, _, _, _, err := v.walk("mkdir", name, true)
	if err == nil && n != nil {
		if n.mode.IsDir() {
			return nil
		}
		return pathErr("mkdir", name, syscall.ENOTDIR)
	}
	i := len(name)
	for i > 0 && name[i-1] == '/' {
		i--
	}
	j := i
	for j > 0 && name[j-1] != '/' {
		j--
	}
	if j > 1 {
		if err := v.MkdirAll(name[:j-1], perm); err != nil {
			return err
		}
	}
	err = v.Mkdir(name, perm)
	if err != nil {
		// it may have been created concurrently, or be reached under another name (d/..)
		if n, _, _, _, e2 := v.walk("mkdir", name, false); e2 == nil && n != nil && n.mode.IsDir() {
			return nil
		}
		return err
	}
	return nil
}

// Info implements fs.FileInfo and fs.DirEntry.
type Info struct {
	name string
	n    *node
}

func (i Info) Name() string { return i.name }
func (i Info) Size() int64 {
	if i.n.mode.IsRegular() {
		return i.n.size
	}
	if i.n.mode&fs.ModeSymlink != 0 {
		return int64(len(i.n.target))
	}
	return 4096
}
func (i Info) Mode() fs.FileMode          { return i.n.mode }
func (i Info) ModTime() time.Time         { return time.Time{} }
func (i Info) IsDir() bool                { return i.n.mode.IsDir() }
func (i Info) Sys() any                   { return nil }
func (i Info) Type() fs.FileMode          { return i.n.mode.Type() }
func (i Info) Info() (fs.FileInfo, error) { return i, nil }

// Stat follows symlinks.
func (v *FS) Stat(name string) (fs.FileInfo, error) {
	n, _, _, _, err := v.walk("stat", name, true)
	if err != nil {
		return nil, err
	}
	if n == nil {
		return nil, pathErr("stat", name, syscall.ENOENT)
	}
	return Info{path.Base(v.abs(name)), n}, nil
}

// Lstat does not follow a final symlink.
func (v *FS) Lstat(name string) (fs.FileInfo, error) {
	n, _, _, _, err := v.walk("lstat", name, false)
	if err != nil {
		return nil, err
	}
	if n == nil {
		return nil, pathErr("lstat", name, syscall.ENOENT)
	}
	return Info{path.Base(v.abs(name)), n}, nil
}

// File is an open file or directory.
type File struct {
	v      *FS
	n      *node
	name   string
	off    int64
	flag   int
	closed bool
	dirOff int
}

// Flags (values of package os on linux).
const (
	ORdonly = 0x0
	OWronly = 0x1
	ORdwr   = 0x2
	OAppend = 0x400
	OCreate = 0x40
	OExcl   = 0x80
	OTrunc  = 0x200
)

// OpenFile opens (and possibly creates) a file.
func (v *FS) OpenFile(name string, flag int, perm fs.FileMode) (*File, error) {
	n, parent, base, rp, err := v.walk("open", name, true)
	if err != nil {
		return nil, err
	}
	if n == nil {
		if flag&OCreate == 0 {
			return nil, pathErr("open", name, syscall.ENOENT)
		}
		// a dangling symlink as last component: create its target
		if c := parent.children[base]; c != nil && c.mode&fs.ModeSymlink != 0 {
			return nil, pathErr("open", name, syscall.ENOENT)
		}
		n = &node{mode: perm.Perm()}
		parent.children[base] = n
		v.note("create", name, rp, base)
	} else {
		if flag&OCreate != 0 && flag&OExcl != 0 {
			return nil, pathErr("open", name, syscall.EEXIST)
		}
		if n.mode.IsDir() && flag&(OWronly|ORdwr) != 0 {
			return nil, pathErr("open", name, syscall.EISDIR)
		}
		if flag&OTrunc != 0 && n.mode.IsRegular() {
			n.data, n.size = nil, 0
			v.note("write", name, rp, base)
		}
	}
	return &File{v: v, n: n, name: name, flag: flag}, nil
}

func (f *File) Name() string { return f.name }

func (f *File) Close() error {
	if f.closed {
		return pathErr("close", f.name, fs.ErrClosed)
	}
	f.closed = true
	return nil
}

func (f *File) Stat() (fs.FileInfo, error) { return Info{path.Base(f.name), f.n}, nil }

func (f *File) Write(b []byte) (int, error) {
	if f.flag&(OWronly|ORdwr) == 0 {
		return 0, pathErr("write", f.name, syscall.EBADF)
	}
	if f.flag&OAppend != 0 {
		f.off = int64(len(f.n.data))
	}
	for int64(len(f.n.data)) < f.off {
		f.n.data = append(f.n.data, 0)
	}
	f.n.data = append(f.n.data[:f.off], b...)
	f.off += int64(len(b))
	f.n.size = int64(len(f.n.data))
	f.v.Mutations = append(f.v.Mutations, Mutation{Op: "write", Path: f.v.abs(f.name), Real: f.v.abs(f.name)})
	return len(b), nil
}

// Grow appends n bytes of unspecified content (n may be symbolic): used by the
// harness model of io.Copy from a tar stream, where only the byte count matters.
func (f *File) Grow(n int64) {
	f.n.size += n
	f.off += n
	f.v.Mutations = append(f.v.Mutations, Mutation{Op: "write", Path: f.v.abs(f.name), Real: f.v.abs(f.name)})
}

func (f *File) Read(b []byte) (int, error) {
	if f.n.mode.IsDir() {
		return 0, pathErr("read", f.name, syscall.EISDIR)
	}
	if f.off >= int64(len(f.n.data)) {
		return 0, io.EOF
	}
	c := copy(b, f.n.data[f.off:])
	f.off += int64(c)
	return c, nil
}

func (f *File) ReadAt(b []byte, off int64) (int, error) {
	if off >= int64(len(f.n.data)) {
		return 0, io.EOF
	}
	c := copy(b, f.n.data[off:])
	if c < len(b) {
		return c, io.EOF
	}
	return c, nil
}

func (f *File) Seek(offset int64, whence int) (int64, error) {
	switch whence {
	case io.SeekStart:
		f.off = offset
	case io.SeekCurrent:
		f.off += offset
	case io.SeekEnd:
		f.off = int64(len(f.n.data)) + offset
	}
	return f.off, nil
}

// ReadDir lists the directory (sorted by name).
func (f *File) ReadDir(count int) ([]fs.DirEntry, error) {
	if !f.n.mode.IsDir() {
		return nil, pathErr("readdirent", f.name, syscall.ENOTDIR)
	}
	all := f.v.list(f.n)
	rest := all[f.dirOff:]
	if count <= 0 {
		f.dirOff = len(all)
		return rest, nil
	}
	if len(rest) == 0 {
		return nil, io.EOF
	}
	if count > len(rest) {
		count = len(rest)
	}
	f.dirOff += count
	return rest[:count], nil
}

func (v *FS) list(n *node) []fs.DirEntry {
	names := make([]string, 0, len(n.children))
	for k := range n.children {
		names = append(names, k)
	}
	sort.Strings(names)
	out := make([]fs.DirEntry, len(names))
	for i, k := range names {
		out[i] = Info{k, n.children[k]}
	}
	return out
}

// ReadDir lists a directory by name.
func (v *FS) ReadDir(name string) ([]fs.DirEntry, error) {
	n, _, _, _, err := v.walk("open", name, true)
	if err != nil {
		return nil, err
	}
	if n == nil {
		return nil, pathErr("open", name, syscall.ENOENT)
	}
	if !n.mode.IsDir() {
		return nil, pathErr("readdirent", name, syscall.ENOTDIR)
	}
	return v.list(n), nil
}

// Remove removes a file, symlink or empty directory.
func (v *FS) Remove(name string) error {
	n, parent, base, rp, err := v.walk("remove", name, false)
	if err != nil {
		return err
	}
	if n == nil || parent == nil {
		return pathErr("remove", name, syscall.ENOENT)
	}
	if n.mode.IsDir() && len(n.children) > 0 {
		return pathErr("remove", name, syscall.ENOTEMPTY)
	}
	delete(parent.children, base)
	v.note("remove", name, rp, base)
	return nil
}

// RemoveAll removes name and everything below it; a missing name is not an error.
func (v *FS) RemoveAll(name string) error {
	n, parent, base, rp, err := v.walk("unlinkat", name, false)
	if err != nil {
		// a missing path is fine; a path through a non-directory is an error, as for os.RemoveAll
		if underlying(err) == syscall.ENOENT {
			return nil
		}
		return err
	}
	if n == nil || parent == nil {
		return nil
	}
	delete(parent.children, base)
	v.note("remove", name, rp, base)
	return nil
}

// Symlink creates newname as a symbolic link to oldname.
func (v *FS) Symlink(oldname, newname string) error {
	n, parent, base, rp, err := v.walk("symlink", newname, false)
	if err != nil {
		return &linkError{"symlink", oldname, newname, underlying(err)}
	}
	if n != nil {
		return &linkError{"symlink", oldname, newname, syscall.EEXIST}
	}
	parent.children[base] = &node{mode: fs.ModeSymlink | 0o777, target: oldname}
	v.note("symlink", newname, rp, base)
	return nil
}

type linkError struct {
	Op, Old, New string
	Err          error
}

func (e *linkError) Error() string { return e.Op + " " + e.Old + " " + e.New + ": " + e.Err.Error() }
func (e *linkError) Unwrap() error { return e.Err }

func underlying(err error) error {
	if pe, ok := err.(*fs.PathError); ok {
		return pe.Err
	}
	return err
}

// Readlink returns the target of a symlink.
func (v *FS) Readlink(name string) (string, error) {
	n, _, _, _, err := v.walk("readlink", name, false)
	if err != nil {
		return "", err
	}
	if n == nil {
		return "", pathErr("readlink", name, syscall.ENOENT)
	}
	if n.mode&fs.ModeSymlink == 0 {
		return "", pathErr("readlink", name, syscall.EINVAL)
	}
	return n.target, nil
}

// ReadFile returns the content of a file.
func (v *FS) ReadFile(name string) ([]byte, error) {
	n, _, _, _, err := v.walk("open", name, true)
	if err != nil {
		return nil, err
	}
	if n == nil {
		return nil, pathErr("open", name, syscall.ENOENT)
	}
	if n.mode.IsDir() {
		return nil, pathErr("read", name, syscall.EISDIR)
	}
	return append([]byte(nil), n.data...), nil
}

// WriteFile writes data to the named file, creating or truncating it.
func (v *FS) WriteFile(name string, data []byte, perm fs.FileMode) error {
	f, err := v.OpenFile(name, OWronly|OCreate|OTrunc, perm)
	if err != nil {
		return err
	}
	f.n.data = append([]byte(nil), data...)
	f.n.size = int64(len(data))
	v.Mutations = append(v.Mutations, Mutation{Op: "write", Path: v.abs(name), Real: v.abs(name)})
	return nil
}

// Resolve returns the symlink-free absolute path of name (which must exist).
func (v *FS) Resolve(name string) (string, error) {
	n, _, base, rp, err := v.walk("stat", name, true)
	if err != nil {
		return "", err
	}
	if n == nil {
		return "", pathErr("stat", name, syscall.ENOENT)
	}
	if n == v.root {
		return "/", nil
	}
	return path.Join(rp, base), nil
}

// Tree returns every path of the file system with a one-letter kind (d, f, l) and, for links, the target.
func (v *FS) Tree() []string {
	var out []string
	var rec func(p string, n *node)
	rec = func(p string, n *node) {
		names := make([]string, 0, len(n.children))
		for k := range n.children {
			names = append(names, k)
		}
		sort.Strings(names)
		for _, k := range names {
			c := n.children[k]
			cp := path.Join(p, k)
			switch {
			case c.mode.IsDir():
				out = append(out, "d "+cp)
				rec(cp, c)
			case c.mode&fs.ModeSymlink != 0:
				out = append(out, "l "+cp+" -> "+c.target)
			default:
				out = append(out, "f "+cp)
			}
		}
	}
	rec("/", v.root)
	return out
}
