package vos

// Replacements for the functions of package os (and two of path/filepath) with
// identical signatures, operating on the current virtual file system. The
// symbolic executor redirects calls to them (harness variable
// verifReplacements); natively they are never used.

import (
	"archive/tar"
	"io"
	"io/fs"
	"os"
	"path"
	"strings"
	"syscall"

	"github.com/google/osv-scalibr/internal/verifrt"
	"github.com/google/osv-scalibr/internal/verifrt/tarstub"
)

// Cur is the virtual file system the stubs operate on.
var Cur = New()

// Reset installs a fresh virtual file system.
func Reset() *FS {
	Cur = New()
	files = map[*os.File]*File{}
	return Cur
}

var files = map[*os.File]*File{}

func conc(s string) string { return verifrt.ConcretizeStr(s) }

func wrapFile(f *File, err error) (*os.File, error) {
	if err != nil {
		return nil, err
	}
	h := new(os.File)
	files[h] = f
	return h, nil
}

func fileOf(h *os.File) *File {
	f := files[h]
	if f == nil {
		panic("vos: use of an *os.File that was not opened through the virtual OS")
	}
	return f
}

// FileOf exposes the virtual file behind an *os.File (for harness models of io.Copy).
func FileOf(h *os.File) *File { return fileOf(h) }

func StubMkdirTemp(dir, pattern string) (string, error) {
	return Cur.MkdirTemp(conc(dir), conc(pattern))
}
func StubMkdir(name string, perm os.FileMode) error    { return Cur.Mkdir(conc(name), perm) }
func StubMkdirAll(name string, perm os.FileMode) error { return Cur.MkdirAll(conc(name), perm) }
func StubStat(name string) (os.FileInfo, error)        { return Cur.Stat(conc(name)) }
func StubLstat(name string) (os.FileInfo, error)       { return Cur.Lstat(conc(name)) }
func StubRemove(name string) error                     { return Cur.Remove(conc(name)) }
func StubRemoveAll(name string) error                  { return Cur.RemoveAll(conc(name)) }
func StubSymlink(oldname, newname string) error        { return Cur.Symlink(conc(oldname), conc(newname)) }
func StubReadlink(name string) (string, error)         { return Cur.Readlink(conc(name)) }
func StubReadFile(name string) ([]byte, error)         { return Cur.ReadFile(conc(name)) }
func StubReadDir(name string) ([]os.DirEntry, error)   { return Cur.ReadDir(conc(name)) }
func StubTempDir() string                              { return Cur.TmpDir }
func StubGetwd() (string, error)                       { return Cur.Cwd, nil }
func StubWriteFile(name string, data []byte, perm os.FileMode) error {
	return Cur.WriteFile(conc(name), data, perm)
}
func StubOpenFile(name string, flag int, perm os.FileMode) (*os.File, error) {
	return wrapFile(Cur.OpenFile(conc(name), flag, perm))
}
func StubOpen(name string) (*os.File, error) { return wrapFile(Cur.OpenFile(conc(name), ORdonly, 0)) }
func StubCreate(name string) (*os.File, error) {
	return wrapFile(Cur.OpenFile(conc(name), ORdwr|OCreate|OTrunc, 0o666))
}

func StubFileClose(h *os.File) error {
	if h == nil {
		return os.ErrInvalid
	}
	return fileOf(h).Close()
}
func StubFileName(h *os.File) string                              { return fileOf(h).Name() }
func StubFileStat(h *os.File) (os.FileInfo, error)                { return fileOf(h).Stat() }
func StubFileWrite(h *os.File, b []byte) (int, error)             { return fileOf(h).Write(b) }
func StubFileWriteString(h *os.File, s string) (int, error)       { return fileOf(h).Write([]byte(s)) }
func StubFileRead(h *os.File, b []byte) (int, error)              { return fileOf(h).Read(b) }
func StubFileReadAt(h *os.File, b []byte, off int64) (int, error) { return fileOf(h).ReadAt(b, off) }
func StubFileSeek(h *os.File, off int64, whence int) (int64, error) {
	return fileOf(h).Seek(off, whence)
}
func StubFileReadDir(h *os.File, n int) ([]os.DirEntry, error) { return fileOf(h).ReadDir(n) }

// StubFileReadFrom models (*os.File).ReadFrom. When the source is a stubbed *tar.Reader
// (directly or behind an io.LimitedReader) only the byte count is transferred, so
// symbolic payload sizes need no loop.
func StubFileReadFrom(h *os.File, r io.Reader) (int64, error) {
	f := fileOf(h)
	if lr, ok := r.(*io.LimitedReader); ok {
		if tr, ok := lr.R.(*tar.Reader); ok && !tarstub.HasContent(tr) {
			n := tarstub.TakeFrom(tr, lr.N)
			lr.N -= n
			f.Grow(n)
			return n, nil
		}
	}
	if tr, ok := r.(*tar.Reader); ok && !tarstub.HasContent(tr) {
		n := tarstub.TakeFrom(tr, -1)
		f.Grow(n)
		return n, nil
	}
	var total int64
	buf := make([]byte, 512)
	for {
		n, err := r.Read(buf)
		if n > 0 {
			f.Write(buf[:n])
			total += int64(n)
		}
		if err == io.EOF {
			return total, nil
		}
		if err != nil {
			return total, err
		}
	}
}

func StubAbs(p string) (string, error) {
	p = conc(p)
	if strings.HasPrefix(p, "/") {
		return path.Clean(p), nil
	}
	return path.Join(Cur.Cwd, p), nil
}

func StubIsNotExist(err error) bool {
	return underlyingIs(err, fs.ErrNotExist, syscall.ENOENT)
}
func StubIsExist(err error) bool {
	return underlyingIs(err, fs.ErrExist, syscall.EEXIST) || underlyingIs(err, fs.ErrExist, syscall.ENOTEMPTY)
}
func StubIsPermission(err error) bool {
	return underlyingIs(err, fs.ErrPermission, syscall.EACCES) || underlyingIs(err, fs.ErrPermission, syscall.EPERM)
}

func underlyingIs(err error, target error, errno syscall.Errno) bool {
	switch e := err.(type) {
	case *fs.PathError:
		err = e.Err
	case *os.LinkError:
		err = e.Err
	case *linkError:
		err = e.Err
	case *os.SyscallError:
		err = e.Err
	}
	if err == target {
		return true
	}
	if en, ok := err.(syscall.Errno); ok {
		return en == errno
	}
	return false
}

// Replacements maps qualified function names to their stubs.
var Replacements = map[string]any{
	"os.MkdirTemp":           StubMkdirTemp,
	"os.Mkdir":               StubMkdir,
	"os.MkdirAll":            StubMkdirAll,
	"os.Stat":                StubStat,
	"os.Lstat":               StubLstat,
	"os.Remove":              StubRemove,
	"os.RemoveAll":           StubRemoveAll,
	"os.Symlink":             StubSymlink,
	"os.Readlink":            StubReadlink,
	"os.ReadFile":            StubReadFile,
	"os.WriteFile":           StubWriteFile,
	"os.ReadDir":             StubReadDir,
	"os.TempDir":             StubTempDir,
	"os.Getwd":               StubGetwd,
	"os.OpenFile":            StubOpenFile,
	"os.Open":                StubOpen,
	"os.Create":              StubCreate,
	"os.IsNotExist":          StubIsNotExist,
	"os.IsExist":             StubIsExist,
	"os.IsPermission":        StubIsPermission,
	"(*os.File).Close":       StubFileClose,
	"(*os.File).Name":        StubFileName,
	"(*os.File).Stat":        StubFileStat,
	"(*os.File).Write":       StubFileWrite,
	"(*os.File).WriteString": StubFileWriteString,
	"(*os.File).Read":        StubFileRead,
	"(*os.File).ReadAt":      StubFileReadAt,
	"(*os.File).Seek":        StubFileSeek,
	"(*os.File).ReadDir":     StubFileReadDir,
	"(*os.File).ReadFrom":    StubFileReadFrom,
	"path/filepath.Abs":      StubAbs,
}
