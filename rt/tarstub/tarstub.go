// Package tarstub replaces archive/tar's reader by a list of headers plus
// payload sizes when harness code runs in the symbolic executor; natively the
// same entry list is serialised with archive/tar.Writer, so the code under
// test reads real tar bytes. Injected as
// github.com/google/osv-scalibr/internal/verifrt/tarstub.
package tarstub

import (
	"archive/tar"
	"bytes"
	"errors"
	"io"

	"github.com/google/osv-scalibr/internal/verifrt"
)

// Entry is one tar entry. Size is the payload size of a regular file and may be symbolic
// (when symbolic, natively the recorded concrete value is used).
type Entry struct {
	Name     string
	Linkname string
	Typeflag byte
	Mode     int64
	Size     int64
	Content  []byte // optional; if nil the payload is Size zero bytes
}

// Stream is the reader handed to the code under test.
type Stream struct {
	Entries []Entry
	pos     int   // next entry
	remain  int64 // unread payload bytes of the current entry
	cur     int   // current entry index
	off     int64
	native  *bytes.Reader
}

// NewStream returns the reader for a list of entries: the stub stream under the
// symbolic executor, real tar bytes natively.
func NewStream(entries []Entry) io.ReadCloser {
	if verifrt.Native() {
		return io.NopCloser(bytes.NewReader(Bytes(entries)))
	}
	return &Stream{Entries: entries, cur: -1}
}

// Bytes serialises entries as a real tar archive.
func Bytes(entries []Entry) []byte {
	var buf bytes.Buffer
	w := tar.NewWriter(&buf)
	for _, e := range entries {
		h := &tar.Header{Name: e.Name, Linkname: e.Linkname, Typeflag: e.Typeflag, Mode: e.Mode, Format: tar.FormatPAX}
		var payload []byte
		if e.Typeflag == tar.TypeReg {
			payload = e.Content
			if payload == nil {
				payload = make([]byte, e.Size)
			}
			h.Size = int64(len(payload))
		}
		if err := w.WriteHeader(h); err != nil {
			panic("tarstub: " + err.Error())
		}
		if len(payload) > 0 {
			w.Write(payload)
		}
	}
	w.Close()
	return buf.Bytes()
}

func (s *Stream) Read(p []byte) (int, error) {
	return 0, errors.New("tarstub: raw reads of a stub stream are not supported (archive/tar.NewReader is redirected)")
}
func (s *Stream) Close() error { return nil }

// reader is the state behind a *tar.Reader created by StubNewReader.
type reader struct{ s *Stream }

var readers = map[*tar.Reader]*reader{}

// StubNewReader replaces archive/tar.NewReader.
func StubNewReader(r io.Reader) *tar.Reader {
	s, ok := r.(*Stream)
	if !ok {
		panic("tarstub: tar.NewReader on a reader that is not a tarstub.Stream")
	}
	tr := new(tar.Reader)
	readers[tr] = &reader{s: s}
	return tr
}

// StubNext replaces (*tar.Reader).Next.
func StubNext(tr *tar.Reader) (*tar.Header, error) {
	s := readers[tr].s
	if s.pos >= len(s.Entries) {
		return nil, io.EOF
	}
	e := s.Entries[s.pos]
	s.cur = s.pos
	s.pos++
	s.off = 0
	s.remain = 0
	h := &tar.Header{Name: e.Name, Linkname: e.Linkname, Typeflag: e.Typeflag, Mode: e.Mode, Format: tar.FormatPAX}
	if e.Typeflag == tar.TypeReg {
		h.Size = e.Size
		if e.Content != nil {
			h.Size = int64(len(e.Content))
		}
		s.remain = h.Size
	}
	return h, nil
}

// StubRead replaces (*tar.Reader).Read (payload bytes are zero unless Content is given).
func StubRead(tr *tar.Reader, p []byte) (int, error) {
	s := readers[tr].s
	if s.cur < 0 || s.remain <= 0 {
		return 0, io.EOF
	}
	n := int64(len(p))
	if n > s.remain {
		n = s.remain
	}
	e := s.Entries[s.cur]
	for i := int64(0); i < n; i++ {
		if e.Content != nil {
			p[i] = e.Content[s.off+i]
		} else {
			p[i] = 0
		}
	}
	s.off += n
	s.remain -= n
	return int(n), nil
}

// HasContent reports whether the current entry of tr carries explicit content bytes.
func HasContent(tr *tar.Reader) bool {
	s := readers[tr].s
	return s.cur >= 0 && s.Entries[s.cur].Content != nil
}

// TakeFrom removes up to max bytes (max < 0: all) of the current entry's payload from the
// stream and returns how many; sizes may be symbolic.
func TakeFrom(tr *tar.Reader, max int64) int64 {
	s := readers[tr].s
	n := s.remain
	if max >= 0 {
		// n = min(remain, max) without branching on symbolic sizes
		n = int64(verifrt.IteInt(s.remain <= max, int(s.remain), int(max)))
	}
	s.remain -= n
	s.off += n
	return n
}

// Replacements maps archive/tar's reader functions to the stubs.
var Replacements = map[string]any{
	"archive/tar.NewReader":      StubNewReader,
	"(*archive/tar.Reader).Next": StubNext,
	"(*archive/tar.Reader).Read": StubRead,
}
