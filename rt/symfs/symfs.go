// Package symfs is an in-memory scalibrfs.FS for harnesses: a concrete
// directory skeleton whose leaves may carry symbolic attributes (kind, size)
// and whose every operation site can be made to fail by a fault hook.
// Injected by overlay as github.com/google/osv-scalibr/internal/verifrt/symfs.
package symfs

import (
	"io"
	"io/fs"
	"strings"
	"time"
)

// Node is a file, directory, symlink or special file.
type Node struct {
	Name     string
	Mode     fs.FileMode // type bits + permissions; may be symbolic for leaves (never ModeDir)
	Size     int64       // reported size; may be symbolic
	Data     []byte      // content served by Read
	Children []*Node     // listing order
	// Target, for a symlink node: what Stat and Open resolve to (directory entries and their Info()
	// describe the link itself). nil: the link node stands for its own target.
	Target *Node
}

// Dir makes a directory node.
func Dir(name string, children ...*Node) *Node {
	return &Node{Name: name, Mode: fs.ModeDir | 0o755, Children: children}
}

// File makes a regular file whose reported size is len(data).
func File(name string, data string) *Node {
	return &Node{Name: name, Mode: 0o644, Size: int64(len(data)), Data: []byte(data)}
}

// Op identifies an operation site for fault injection.
type Op struct {
	Kind string // stat | open | fstat | readdir | read
	Path string
	N    int // for readdir/read: index of the call on this handle
}

// FS implements scalibrfs.FS (fs.FS + fs.ReadDirFS + fs.StatFS).
type FS struct {
	Root *Node
	// Fault, if set, is consulted at every operation site; a non-nil error fails the operation.
	Fault func(op Op) error
	// Log records the operations performed, in order.
	Log []Op
}

func (f *FS) fault(op Op) error {
	f.Log = append(f.Log, op)
	if f.Fault != nil {
		return f.Fault(op)
	}
	return nil
}

// Lookup finds the node for a slash-separated path relative to the root ("." is the root).
func (f *FS) Lookup(name string) *Node {
	if name == "." || name == "" {
		return f.Root
	}
	n := f.Root
	for _, seg := range strings.Split(name, "/") {
		var next *Node
		for _, c := range n.Children {
			if c.Name == seg {
				next = c
				break
			}
		}
		if next == nil {
			return nil
		}
		n = next
	}
	return n
}

func notExist(op, name string) error {
	return &fs.PathError{Op: op, Path: name, Err: fs.ErrNotExist}
}

// Stat implements fs.StatFS.
func (f *FS) Stat(name string) (fs.FileInfo, error) {
	if err := f.fault(Op{Kind: "stat", Path: name}); err != nil {
		return nil, &fs.PathError{Op: "stat", Path: name, Err: err}
	}
	n := f.Lookup(name)
	if n == nil {
		return nil, notExist("stat", name)
	}
	if n.Mode&fs.ModeSymlink != 0 && n.Target != nil {
		n = n.Target
	}
	return info{n}, nil
}

// Open implements fs.FS.
func (f *FS) Open(name string) (fs.File, error) {
	if err := f.fault(Op{Kind: "open", Path: name}); err != nil {
		return nil, &fs.PathError{Op: "open", Path: name, Err: err}
	}
	n := f.Lookup(name)
	if n == nil {
		return nil, notExist("open", name)
	}
	if n.Mode&fs.ModeSymlink != 0 && n.Target != nil {
		n = n.Target
	}
	return &handle{fs: f, n: n, path: name}, nil
}

// ReadDir implements fs.ReadDirFS.
func (f *FS) ReadDir(name string) ([]fs.DirEntry, error) {
	if err := f.fault(Op{Kind: "readdir", Path: name, N: -1}); err != nil {
		return nil, &fs.PathError{Op: "readdir", Path: name, Err: err}
	}
	n := f.Lookup(name)
	if n == nil {
		return nil, notExist("readdir", name)
	}
	var out []fs.DirEntry
	for _, c := range n.Children {
		out = append(out, info{c})
	}
	return out, nil
}

type info struct{ n *Node }

func (i info) Name() string               { return i.n.Name }
func (i info) Size() int64                { return i.n.Size }
func (i info) Mode() fs.FileMode          { return i.n.Mode }
func (i info) ModTime() time.Time         { return time.Time{} }
func (i info) IsDir() bool                { return i.n.Mode&fs.ModeDir != 0 }
func (i info) Sys() any                   { return nil }
func (i info) Type() fs.FileMode          { return i.n.Mode & fs.ModeType }
func (i info) Info() (fs.FileInfo, error) { return i, nil }

type handle struct {
	fs     *FS
	n      *Node
	path   string
	off    int
	dirOff int
	reads  int
	lists  int
}

func (h *handle) Stat() (fs.FileInfo, error) {
	if err := h.fs.fault(Op{Kind: "fstat", Path: h.path}); err != nil {
		return nil, &fs.PathError{Op: "stat", Path: h.path, Err: err}
	}
	return info{h.n}, nil
}

func (h *handle) Read(p []byte) (int, error) {
	k := h.reads
	h.reads++
	if err := h.fs.fault(Op{Kind: "read", Path: h.path, N: k}); err != nil {
		return 0, &fs.PathError{Op: "read", Path: h.path, Err: err}
	}
	if h.off >= len(h.n.Data) {
		return 0, io.EOF
	}
	c := copy(p, h.n.Data[h.off:])
	h.off += c
	return c, nil
}

// ReadAt implements io.ReaderAt (required of scalibr file systems).
func (h *handle) ReadAt(p []byte, off int64) (int, error) {
	if off >= int64(len(h.n.Data)) {
		return 0, io.EOF
	}
	c := copy(p, h.n.Data[off:])
	if c < len(p) {
		return c, io.EOF
	}
	return c, nil
}

func (h *handle) Close() error { return nil }

// ReadDir implements fs.ReadDirFile.
func (h *handle) ReadDir(count int) ([]fs.DirEntry, error) {
	k := h.lists
	h.lists++
	if err := h.fs.fault(Op{Kind: "readdir", Path: h.path, N: k}); err != nil {
		return nil, &fs.PathError{Op: "readdir", Path: h.path, Err: err}
	}
	rest := h.n.Children[h.dirOff:]
	if count <= 0 {
		h.dirOff = len(h.n.Children)
		out := make([]fs.DirEntry, len(rest))
		for i, c := range rest {
			out[i] = info{c}
		}
		return out, nil
	}
	if len(rest) == 0 {
		return nil, io.EOF
	}
	if count > len(rest) {
		count = len(rest)
	}
	out := make([]fs.DirEntry, count)
	for i := 0; i < count; i++ {
		out[i] = info{rest[i]}
	}
	h.dirOff += count
	return out, nil
}

// Walk visits every node below root in listing order with its path.
func (f *FS) Walk(fn func(path string, n *Node)) {
	var rec func(p string, n *Node)
	rec = func(p string, n *Node) {
		fn(p, n)
		for _, c := range n.Children {
			cp := c.Name
			if p != "." {
				cp = p + "/" + c.Name
			}
			rec(cp, c)
		}
	}
	rec(".", f.Root)
}
