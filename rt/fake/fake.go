// Package fake provides recording fake plugins for harnesses.
// Injected by overlay as github.com/google/osv-scalibr/internal/verifrt/fake.
package fake

import (
	"context"

	"github.com/google/osv-scalibr/detector"
	"github.com/google/osv-scalibr/extractor"
	"github.com/google/osv-scalibr/extractor/filesystem"
	"github.com/google/osv-scalibr/extractor/standalone"
	scalibrfs "github.com/google/osv-scalibr/fs"
	"github.com/google/osv-scalibr/inventory"
	"github.com/google/osv-scalibr/packageindex"
	"github.com/google/osv-scalibr/plugin"
	"github.com/google/osv-scalibr/purl"
)

// Call is one recorded FileRequired or Extract call.
type Call struct {
	Kind string // required | extract
	Path string
}

// Extractor is a filesystem extractor driven by the harness.
type Extractor struct {
	ExName string
	// Required decides FileRequired per path (may return a symbolic bool).
	Required func(path string) bool
	// RequiredAPI, if set, decides FileRequired from the whole FileAPI (path and lazy Stat).
	RequiredAPI func(api filesystem.FileAPI) bool
	// OnExtract, if set, produces the result; the default is one package named after the path.
	OnExtract func(ctx context.Context, in *filesystem.ScanInput) (inventory.Inventory, error)
	Calls     []Call
	Extracts  map[string]int
	PURLType  string // "" = packages have no PURL
}

// NewExtractor makes a fake extractor.
func NewExtractor(name string, required func(path string) bool) *Extractor {
	return &Extractor{ExName: name, Required: required, Extracts: map[string]int{}, PURLType: purl.TypeGeneric}
}

func (e *Extractor) Name() string                       { return e.ExName }
func (e *Extractor) Version() int                       { return 1 }
func (e *Extractor) Requirements() *plugin.Capabilities { return &plugin.Capabilities{} }

func (e *Extractor) FileRequired(api filesystem.FileAPI) bool {
	e.Calls = append(e.Calls, Call{"required", api.Path()})
	if e.RequiredAPI != nil {
		return e.RequiredAPI(api)
	}
	return e.Required(api.Path())
}

func (e *Extractor) Extract(ctx context.Context, in *filesystem.ScanInput) (inventory.Inventory, error) {
	e.Calls = append(e.Calls, Call{"extract", in.Path})
	e.Extracts[in.Path]++
	if e.OnExtract != nil {
		return e.OnExtract(ctx, in)
	}
	return inventory.Inventory{Packages: []*extractor.Package{{
		Name: e.ExName + ":" + in.Path, Version: "1", Locations: []string{in.Path},
	}}}, nil
}

func (e *Extractor) ToPURL(p *extractor.Package) *purl.PackageURL {
	if e.PURLType == "" {
		return nil
	}
	return &purl.PackageURL{Type: e.PURLType, Name: p.Name, Version: p.Version}
}

func (e *Extractor) Ecosystem(*extractor.Package) string { return "" }

// Detector is a detector driven by the harness.
type Detector struct {
	DetName  string
	Required []string
	OnScan   func(ctx context.Context, root *scalibrfs.ScanRoot, px *packageindex.PackageIndex) ([]*detector.Finding, error)
	Scans    int
}

func (d *Detector) Name() string                       { return d.DetName }
func (d *Detector) Version() int                       { return 1 }
func (d *Detector) Requirements() *plugin.Capabilities { return &plugin.Capabilities{} }
func (d *Detector) RequiredExtractors() []string       { return d.Required }
func (d *Detector) Scan(ctx context.Context, root *scalibrfs.ScanRoot, px *packageindex.PackageIndex) ([]*detector.Finding, error) {
	d.Scans++
	if d.OnScan != nil {
		return d.OnScan(ctx, root, px)
	}
	return nil, nil
}

// Standalone is a standalone extractor driven by the harness.
type Standalone struct {
	ExName    string
	OnExtract func(ctx context.Context, in *standalone.ScanInput) (inventory.Inventory, error)
	Runs      int
}

func (e *Standalone) Name() string                       { return e.ExName }
func (e *Standalone) Version() int                       { return 1 }
func (e *Standalone) Requirements() *plugin.Capabilities { return &plugin.Capabilities{} }
func (e *Standalone) Extract(ctx context.Context, in *standalone.ScanInput) (inventory.Inventory, error) {
	e.Runs++
	if e.OnExtract != nil {
		return e.OnExtract(ctx, in)
	}
	return inventory.Inventory{}, nil
}
func (e *Standalone) ToPURL(p *extractor.Package) *purl.PackageURL {
	return &purl.PackageURL{Type: purl.TypeGeneric, Name: p.Name, Version: p.Version}
}
func (e *Standalone) Ecosystem(*extractor.Package) string { return "" }
