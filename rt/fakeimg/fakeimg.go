// Package fakeimg is a v1.Image made of entry lists (see tarstub).
// Injected as github.com/google/osv-scalibr/internal/verifrt/fakeimg.
package fakeimg

import (
	"errors"
	"fmt"
	"io"

	v1 "github.com/google/go-containerregistry/pkg/v1"
	"github.com/google/go-containerregistry/pkg/v1/types"
	"github.com/google/osv-scalibr/internal/verifrt/tarstub"
)

// Layer is a v1.Layer whose uncompressed stream is a list of entries.
type Layer struct {
	Index   int
	Entries []tarstub.Entry
	Opened  int
}

func (l *Layer) hash() v1.Hash {
	return v1.Hash{Algorithm: "sha256", Hex: fmt.Sprintf("%064d", l.Index)}
}
func (l *Layer) Digest() (v1.Hash, error) { return l.hash(), nil }
func (l *Layer) DiffID() (v1.Hash, error) { return l.hash(), nil }
func (l *Layer) Compressed() (io.ReadCloser, error) {
	return nil, errors.New("fakeimg: no compressed form")
}
func (l *Layer) Size() (int64, error)                { return 0, nil }
func (l *Layer) MediaType() (types.MediaType, error) { return types.DockerLayer, nil }
func (l *Layer) Uncompressed() (io.ReadCloser, error) {
	l.Opened++
	return tarstub.NewStream(l.Entries), nil
}

// DiffIDString is the diff ID the scalibr layer reports for layer i.
func DiffIDString(i int) string { return (&Layer{Index: i}).hash().String() }

// Image is a v1.Image.
type Image struct {
	Ls       []*Layer
	History  []v1.History
	NoConfig bool
}

func (i *Image) Layers() ([]v1.Layer, error) {
	out := make([]v1.Layer, len(i.Ls))
	for k, l := range i.Ls {
		out[k] = l
	}
	return out, nil
}
func (i *Image) MediaType() (types.MediaType, error) { return types.DockerManifestSchema2, nil }
func (i *Image) Size() (int64, error)                { return 0, nil }
func (i *Image) ConfigName() (v1.Hash, error)        { return v1.Hash{}, nil }
func (i *Image) ConfigFile() (*v1.ConfigFile, error) {
	if i.NoConfig {
		return nil, errors.New("fakeimg: no config file")
	}
	return &v1.ConfigFile{History: i.History}, nil
}
func (i *Image) RawConfigFile() ([]byte, error)  { return nil, errors.New("fakeimg: not implemented") }
func (i *Image) Digest() (v1.Hash, error)        { return v1.Hash{}, nil }
func (i *Image) Manifest() (*v1.Manifest, error) { return nil, errors.New("fakeimg: not implemented") }
func (i *Image) RawManifest() ([]byte, error)    { return nil, errors.New("fakeimg: not implemented") }
func (i *Image) LayerByDigest(v1.Hash) (v1.Layer, error) {
	return nil, errors.New("fakeimg: not implemented")
}
func (i *Image) LayerByDiffID(v1.Hash) (v1.Layer, error) {
	return nil, errors.New("fakeimg: not implemented")
}
