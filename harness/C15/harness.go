// Package c15 is the harness for C15 (overlay-only package internal/verifh/c15).
//
// Kernel of "SBOMs the library writes can be read back by the library": the library's own code
// on both sides of the file - converter.ToSPDX23 / ToCDX, and the sbom/spdx and sbom/cdx
// extractors' conversion of the parsed document - with the third-party codecs (spdx/tools-golang,
// cyclonedx-go: reflection-driven JSON/YAML/XML/tag-value encoders and decoders, outside the
// symbolic executor's reach) replaced by the identity on the in-memory document: the reader stub
// hands the extractor the very document the converter built. Natively nothing is stubbed: the
// document is written with the real encoder and read back with the real decoder, so every sampled
// path and every counterexample also tests that assumption.
package c15

import (
	"bytes"
	"context"
	"errors"
	"io"
	"io/fs"
	"time"

	"github.com/CycloneDX/cyclonedx-go"
	scalibr "github.com/google/osv-scalibr"
	"github.com/google/osv-scalibr/converter"
	"github.com/google/osv-scalibr/extractor"
	"github.com/google/osv-scalibr/extractor/filesystem"
	"github.com/google/osv-scalibr/extractor/filesystem/sbom/cdx"
	spdxex "github.com/google/osv-scalibr/extractor/filesystem/sbom/spdx"
	"github.com/google/osv-scalibr/internal/verifrt"
	"github.com/google/osv-scalibr/inventory"
	"github.com/google/osv-scalibr/plugin"
	"github.com/google/osv-scalibr/purl"
	"github.com/spdx/tools-golang/json"
	"github.com/spdx/tools-golang/spdx"
	"github.com/spdx/tools-golang/tagvalue"
	"github.com/spdx/tools-golang/yaml"
)

// srcExtractor is the extractor the exported packages claim to come from.
type srcExtractor struct {
	typ   map[*extractor.Package]string // "" = no PURL
	shape map[*extractor.Package]*purl.PackageURL
}

func (srcExtractor) Name() string                       { return "src" }
func (srcExtractor) Version() int                       { return 1 }
func (srcExtractor) Requirements() *plugin.Capabilities { return &plugin.Capabilities{} }
func (srcExtractor) FileRequired(filesystem.FileAPI) bool {
	return false
}
func (srcExtractor) Extract(context.Context, *filesystem.ScanInput) (inventory.Inventory, error) {
	return inventory.Inventory{}, nil
}
func (e srcExtractor) ToPURL(p *extractor.Package) *purl.PackageURL {
	t := e.typ[p]
	if t == "" {
		return nil
	}
	if u := e.shape[p]; u != nil {
		return &purl.PackageURL{Type: t, Namespace: u.Namespace, Name: p.Name, Version: p.Version, Qualifiers: u.Qualifiers, Subpath: u.Subpath}
	}
	return &purl.PackageURL{Type: t, Name: p.Name, Version: p.Version}
}
func (srcExtractor) Ecosystem(*extractor.Package) string { return "" }

type info struct {
	name string
	size int64
}

func (i info) Name() string       { return i.name }
func (i info) Size() int64        { return i.size }
func (i info) Mode() fs.FileMode  { return 0o644 }
func (i info) ModTime() time.Time { return time.Time{} }
func (i info) IsDir() bool        { return false }
func (i info) Sys() any           { return nil }

// the document handed from the writer side to the reader stubs (symbolic executor only)
var (
	curSPDX *spdx.Document
	curBOM  *cyclonedx.BOM
)

func stubSPDXRead(io.Reader) (*spdx.Document, error) { return curSPDX, nil }

// The tag-value codec is the identity too, except for one documented constraint of the format
// that its reader enforces: a package supplier is NOASSERTION, or "Person: x" / "Organization: x".
func stubTagvalueRead(io.Reader) (*spdx.Document, error) {
	for _, p := range curSPDX.Packages {
		if s := p.PackageSupplier; s != nil && s.Supplier != "" && s.SupplierType != "" && s.SupplierType != "Person" && s.SupplierType != "Organization" {
			return nil, errors.New("unrecognized PackageSupplier type " + s.SupplierType)
		}
	}
	return curSPDX, nil
}

// The cdx extractor's reader closures are `return cdxBOM, decoder.Decode(&cdxBOM)`: whether the
// first operand is read before or after the call is unspecified in Go; the gc compiler reads it
// after the call (so the code works), go/ssa - which the symbolic executor runs - before it. The
// closures are therefore replaced as a whole by the identity codec.
func stubCDXRead(io.Reader) (cyclonedx.BOM, error) { return *curBOM, nil }

var verifReplacements = map[string]any{
	"github.com/spdx/tools-golang/json.Read":                                      stubSPDXRead,
	"github.com/spdx/tools-golang/yaml.Read":                                      stubSPDXRead,
	"github.com/spdx/tools-golang/tagvalue.Read":                                  stubTagvalueRead,
	"github.com/google/osv-scalibr/extractor/filesystem/sbom/cdx.findExtractor$1": stubCDXRead,
	"github.com/google/osv-scalibr/extractor/filesystem/sbom/cdx.findExtractor$2": stubCDXRead,
}

var purlTypes = []string{"", purl.TypeGeneric, purl.TypeNPM, purl.TypePyPi, purl.TypeDebian}

// the types of the "shape" runs: those with a namespace or qualifiers in the built-in extractors
var shapeTypes = []string{purl.TypeMaven, purl.TypeGolang, purl.TypeDebian, purl.TypeNPM, purl.TypeRPM}

// every type purl.go declares (the "types" run): an exported URL of any of them is read back
var allTypes = []string{purl.TypeAlpm, purl.TypeApk, purl.TypeBitbucket, purl.TypeBrew, purl.TypeCocoapods, purl.TypeCargo, purl.TypeComposer,
	purl.TypeConan, purl.TypeConda, purl.TypeCOS, purl.TypeCran, purl.TypeDebian, purl.TypeDocker, purl.TypeFlatpak, purl.TypeGem, purl.TypeGeneric,
	purl.TypeGithub, purl.TypeGolang, purl.TypeHackage, purl.TypeKernelModule, purl.TypeKernelVmlinuz, purl.TypeHaskell, purl.TypeMacApps,
	purl.TypeHex, purl.TypeMaven, purl.TypeNix, purl.TypeNPM, purl.TypePacman, purl.TypeNuget, purl.TypeOCI, purl.TypeOpkg, purl.TypePub,
	purl.TypePortage, purl.TypePyPi, purl.TypeRPM, purl.TypeSnap, purl.TypeSwift, purl.TypeGooget, purl.TypeWordpress}

// shapeOf: the package URL gets, by choice, a namespace, a qualifier or a sub-path carrying one
// arbitrary printable byte (characters that need escaping in the URL and in the file formats).
func shapeOf() *purl.PackageURL {
	b := verifrt.Byte("part")
	verifrt.Assume(verifrt.And(b >= 0x21, b <= 0x7e))
	v := "n" + string([]byte{b}) + "s"
	switch verifrt.Choice("shape", 4) {
	case 0:
		return &purl.PackageURL{Namespace: v}
	case 1:
		return &purl.PackageURL{Qualifiers: purl.Qualifiers{{Key: purl.Arch, Value: v}}}
	case 2:
		return &purl.PackageURL{Subpath: v}
	default:
		return &purl.PackageURL{Namespace: v + "/m", Qualifiers: purl.Qualifiers{{Key: purl.Arch, Value: "x"}, {Key: purl.Distro, Value: v}}, Subpath: "a/" + v}
	}
}

// inventoryOf builds n packages with a symbolic name byte each, a PURL type (or none) by choice.
func inventoryOf(n int, spdxRules bool) (*scalibr.ScanResult, []string) {
	ex := srcExtractor{typ: map[*extractor.Package]string{}, shape: map[*extractor.Package]*purl.PackageURL{}}
	shaped := verifrt.Param("shaped") == 1
	everyType := verifrt.Param("shaped") == 2
	var pkgs []*extractor.Package
	var want []string
	for i := 0; i < n; i++ {
		if i > 0 && !shaped && !everyType && verifrt.Choice("duplicate-of-first", 2) == 1 {
			// the same package found a second time: same name, version and type, hence the same URL
			p := &extractor.Package{Name: pkgs[0].Name, Version: pkgs[0].Version, Locations: []string{"c/d"}, Extractor: ex}
			ex.typ[p] = ex.typ[pkgs[0]]
			pkgs = append(pkgs, p)
			if u := ex.ToPURL(p); u != nil && (p.Version != "" || !spdxRules) {
				if parsed, err := purl.FromString(u.String()); err == nil {
					want = append(want, parsed.String())
				}
			}
			continue
		}
		b := verifrt.Byte("name")
		verifrt.Assume(verifrt.And(b >= 0x21, b <= 0x7e))
		p := &extractor.Package{Name: "p" + string([]byte{b}) + "x", Version: "1." + string(rune('0'+i)), Locations: []string{"a/b"}, Extractor: ex}
		if i == 0 && !everyType && verifrt.Choice("no-version", 2) == 1 {
			// a package whose version is unknown: SPDX export leaves it out (a PURL without version
			// is not written there), CycloneDX export writes it
			p.Version = ""
		}
		if everyType {
			ex.typ[p] = allTypes[verifrt.Choice("purl-type", len(allTypes))]
			if ex.typ[p] == purl.TypeSwift {
				// the format requires a namespace for this type (the swift extractors always set one)
				ex.shape[p] = &purl.PackageURL{Namespace: "ns"}
			}
		} else if shaped {
			ex.typ[p] = shapeTypes[verifrt.Choice("purl-type", len(shapeTypes))]
			ex.shape[p] = shapeOf()
		} else {
			ex.typ[p] = purlTypes[verifrt.Choice("purl-type", len(purlTypes))]
		}
		pkgs = append(pkgs, p)
		if u := ex.ToPURL(p); u != nil {
			// what a reader of the printed PURL is entitled to see: the PURL as normalised for its type
			parsed, err := purl.FromString(u.String())
			verifrt.Assert(err == nil, "an exported package's PURL can be parsed back")
			if err == nil && (p.Version != "" || !spdxRules) {
				want = append(want, parsed.String())
			}
		}
	}
	return &scalibr.ScanResult{Inventory: inventory.Inventory{Packages: pkgs}}, want
}

func check(inv inventory.Inventory, err error, want []string) {
	verifrt.Assert(err == nil, "the library's own SBOM extractor reads the SBOM the library wrote")
	if err != nil {
		return
	}
	var got []string
	for _, p := range inv.Packages {
		p.Extractor = nil
		if m, ok := p.Metadata.(*spdxex.Metadata); ok && m.PURL != nil {
			got = append(got, m.PURL.String())
		}
		if m, ok := p.Metadata.(*cdx.Metadata); ok && m.PURL != nil {
			got = append(got, m.PURL.String())
		}
	}
	verifrt.ObserveInt("purls", len(got))
	verifrt.Assert(len(got) == len(want), "re-scanning the written SBOM yields as many package URLs as were exported")
	// multiset equality
	used := make([]bool, len(got))
	for _, w := range want {
		found := false
		for k, g := range got {
			if !used[k] && verifrt.StrEq(g, w) {
				// symbolic names may coincide: take the first unused equal one
				if !found {
					used[k] = true
					found = true
				}
			}
		}
		verifrt.Assert(found, "every exported package URL is found again (as a multiset)")
	}
	if len(want) > 0 {
		verifrt.Reach("round-trip")
	}
}

// VerifSPDX: ToSPDX23, written as JSON / YAML / tag-value, read back by the sbom/spdx extractor.
func VerifSPDX() {
	res, want := inventoryOf(verifrt.Param("packages"), true)
	doc := converter.ToSPDX23(res, converter.SPDXConfig{})
	curSPDX = doc
	format := verifrt.Choice("format", 3)
	verifrt.TagIf(format == 2, "C15-spdx-tagvalue-supplier-noassertion")
	path := []string{"out.spdx.json", "out.spdx.yml", "out.spdx"}[format]
	data := []byte("{}")
	if verifrt.Native() {
		var buf bytes.Buffer
		var err error
		switch format {
		case 0:
			err = json.Write(doc, &buf)
		case 1:
			err = yaml.Write(doc, &buf)
		default:
			err = tagvalue.Write(doc, &buf)
		}
		if err != nil {
			verifrt.Fail("the exported document can be written")
			return
		}
		data = buf.Bytes()
	}
	inv, err := spdxex.New().Extract(context.Background(), &filesystem.ScanInput{Path: path, Info: info{path, int64(len(data))}, Reader: bytes.NewReader(data)})
	check(inv, err, want)
}

// VerifCDX: ToCDX, written as JSON / XML, read back by the sbom/cdx extractor.
func VerifCDX() {
	res, want := inventoryOf(verifrt.Param("packages"), false)
	bom := converter.ToCDX(res, converter.CDXConfig{ComponentName: "c", ComponentVersion: "1"})
	curBOM = bom
	format := verifrt.Choice("format", 2)
	path := []string{"out.cdx.json", "out.cdx.xml"}[format]
	data := []byte("{}")
	if verifrt.Native() {
		var buf bytes.Buffer
		f := []cyclonedx.BOMFileFormat{cyclonedx.BOMFileFormatJSON, cyclonedx.BOMFileFormatXML}[format]
		if err := cyclonedx.NewBOMEncoder(&buf, f).Encode(bom); err != nil {
			verifrt.Fail("the exported document can be written")
			return
		}
		data = buf.Bytes()
	}
	inv, err := cdx.New().Extract(context.Background(), &filesystem.ScanInput{Path: path, Info: info{path, int64(len(data))}, Reader: bytes.NewReader(data)})
	check(inv, err, want)
}

// VerifTwin must be violated.
func VerifTwin() {
	res, want := inventoryOf(1, true)
	curSPDX = converter.ToSPDX23(res, converter.SPDXConfig{})
	if len(want) == 1 {
		verifrt.Fail("twin")
	}
}
