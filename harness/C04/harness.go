// Package c04 is the harness for C04 (overlay-only package internal/verifh/c04).
package c04

import (
	"archive/tar"
	v1 "github.com/google/go-containerregistry/pkg/v1"
	"io/fs"
	"os"
	"path"
	"sort"
	"strings"

	"github.com/google/osv-scalibr/artifact/image/layerscanning/image"
	scalibrfs "github.com/google/osv-scalibr/fs"
	"github.com/google/osv-scalibr/internal/verifrt"
	"github.com/google/osv-scalibr/internal/verifrt/fakeimg"
	"github.com/google/osv-scalibr/internal/verifrt/tarstub"
	"github.com/google/osv-scalibr/internal/verifrt/vos"
)

var verifReplacements = merge(vos.Replacements, tarstub.Replacements)

func merge(ms ...map[string]any) map[string]any {
	out := map[string]any{}
	for _, m := range ms {
		for k, v := range m {
			out[k] = v
		}
	}
	return out
}

// names include a dotfile and names starting with the letters of the whiteout prefix ".wh."
var universe = []string{"a", "a/b", "a/b/c", "a/.we", "hf"}

const (
	kReg = iota
	kDir
	kSymlink
	kWhiteout
	kOpaque
	nKinds
)

// entrySpec is one tar entry as the oracle sees it.
type entrySpec struct {
	path string
	kind int
	size int64 // regular files (possibly symbolic)
	mode int64 // permission bits (possibly symbolic)
}

// onode is a node of the oracle's overlay state.
type onode struct {
	kind     int // kReg, kDir, kSymlink
	size     int64
	mode     int64
	target   string
	layer    int
	implicit bool // directory that exists only because something was created beneath it
}

const symlinkTarget = "/hf"

func (e entrySpec) tarEntry(prefix string) tarstub.Entry {
	switch e.kind {
	case kReg:
		return tarstub.Entry{Name: prefix + e.path, Typeflag: tar.TypeReg, Mode: e.mode, Size: e.size}
	case kDir:
		return tarstub.Entry{Name: prefix + e.path + "/", Typeflag: tar.TypeDir, Mode: e.mode}
	case kSymlink:
		return tarstub.Entry{Name: prefix + e.path, Typeflag: tar.TypeSymlink, Linkname: symlinkTarget, Mode: 0o777}
	case kWhiteout:
		return tarstub.Entry{Name: prefix + path.Join(path.Dir(e.path), ".wh."+path.Base(e.path)), Typeflag: tar.TypeReg, Mode: 0o600}
	default: // opaque whiteout inside directory e.path
		return tarstub.Entry{Name: prefix + e.path + "/.wh..wh..opq", Typeflag: tar.TypeReg, Mode: 0o600}
	}
}

func under(dir, p string) bool { return strings.HasPrefix(p, dir+"/") }

// apply folds one layer into the overlay state following the OCI image layer rules.
func apply(state map[string]*onode, layer []entrySpec, idx int) {
	// 1. whiteouts act on what the lower layers provide
	for _, e := range layer {
		switch e.kind {
		case kWhiteout:
			for p := range state {
				if p == e.path || under(e.path, p) {
					delete(state, p)
				}
			}
		case kOpaque:
			for p := range state {
				if under(e.path, p) {
					delete(state, p)
				}
			}
		}
	}
	// 2. the layer's own entries, later entries replacing earlier ones
	ensureParents := func(p string) {
		for d := path.Dir(p); d != "." && d != "/"; d = path.Dir(d) {
			if n := state[d]; n == nil || n.kind != kDir {
				// a non-directory that becomes a parent is replaced by a directory
				state[d] = &onode{kind: kDir, layer: idx, implicit: true}
			}
		}
	}
	for _, e := range layer {
		switch e.kind {
		case kReg, kSymlink, kDir:
			old := state[e.path]
			if e.kind != kDir || (old != nil && old.kind != kDir) {
				// replacing a directory by a non-directory hides its former contents
				if old != nil && old.kind == kDir {
					for p := range state {
						if under(e.path, p) {
							delete(state, p)
						}
					}
				}
			}
			ensureParents(e.path)
			n := &onode{kind: e.kind, size: e.size, mode: e.mode, layer: idx}
			if e.kind == kSymlink {
				n.target = symlinkTarget
			}
			if e.kind == kDir {
				n.size = 0
			}
			state[e.path] = n
		case kOpaque:
			// the directory holding an opaque marker exists in this layer
			ensureParents(e.path + "/x")
		}
	}
}

func sortedKeys(m map[string]*onode) []string {
	var ks []string
	for k := range m {
		ks = append(ks, k)
	}
	sort.Strings(ks)
	return ks
}

type realPather interface{ RealFilePath() string }

// checkView compares the view of chain layer i with the oracle state.
func checkView(fsys scalibrfs.FS, state map[string]*onode, i int, checkFiles bool) {
	// every universe path (and nothing else) by direct lookup
	cands := map[string]bool{}
	for _, p := range universe {
		cands[p] = true
	}
	for p := range state {
		cands[p] = true
	}
	for p := range cands {
		want := state[p]
		parentIsDir := true
		if d := path.Dir(p); d != "." {
			parentIsDir = state[d] != nil && state[d].kind == kDir
		}
		// listing of the parent directory
		listed := false
		var listedType fs.FileMode
		if parentIsDir {
			ents, err := fsys.ReadDir(path.Dir(p))
			verifrt.Assert(err == nil, "a directory of the view can be listed: "+p)
			for _, e := range ents {
				if e.Name() == path.Base(p) {
					listed = true
					listedType = e.Type()
				}
			}
		}
		if verifrt.Native() && listed != (want != nil) {
			println("DEBUG view", i, "path", p, "listed", listed, "want", want != nil, "parentIsDir", parentIsDir)
		}
		verifrt.Assert(listed == (want != nil), "directory listing contains exactly the entries of the overlay: "+p)
		if want == nil {
			_, err := fsys.Stat(p)
			verifrt.Assert(err != nil, "an entry absent from the overlay cannot be looked up: "+p)
			continue
		}
		switch want.kind {
		case kDir:
			verifrt.Assert(listedType.IsDir(), "a directory is listed as a directory: "+p)
		case kSymlink:
			verifrt.Assert(listedType&fs.ModeSymlink != 0, "a symlink is listed as a symlink: "+p)
		default:
			verifrt.Assert(listedType.IsRegular(), "a regular file is listed as a regular file: "+p)
		}
		if want.kind == kSymlink {
			continue // resolution is the subject of C17
		}
		info, err := fsys.Stat(p)
		verifrt.Assert(err == nil, "an entry of the overlay can be looked up directly: "+p)
		if err != nil {
			continue
		}
		verifrt.Assert(info.IsDir() == (want.kind == kDir), "lookup yields the overlay's entry type: "+p)
		if want.kind == kReg {
			verifrt.Assert(info.Size() == want.size, "a regular file has the size given by the layer that provides it: "+p)
			verifrt.Assert(int64(info.Mode().Perm()) == want.mode, "a regular file has the mode given by the layer that provides it: "+p)
			if checkFiles {
				f, err := fsys.Open(p)
				verifrt.Assert(err == nil, "a regular file of the view can be opened: "+p)
				if rp, ok := f.(realPather); ok && err == nil {
					st, err := os.Stat(rp.RealFilePath())
					verifrt.Assert(err == nil, "the opened file is backed by an extracted file: "+p)
					if err == nil {
						verifrt.Assert(st.Size() == want.size, "the extracted file has the content length of the providing layer's entry: "+p)
					}
				}
			}
		}
		if want.kind == kDir && !want.implicit {
			verifrt.TagIf(true, "explicit-dir")
			verifrt.Assert(int64(info.Mode().Perm()) == want.mode, "a directory has the mode given by the layer that provides it: "+p)
		}
	}
	// a walk from the root sees exactly the overlay's entries
	var walked []string
	var walk func(dir string)
	walk = func(dir string) {
		ents, err := fsys.ReadDir(dir)
		if err != nil {
			return
		}
		for _, e := range ents {
			p := e.Name()
			if dir != "." {
				p = dir + "/" + e.Name()
			}
			walked = append(walked, p)
			if e.IsDir() {
				walk(p)
			}
		}
	}
	walk(".")
	sort.Strings(walked)
	verifrt.Assert(strings.Join(walked, "\n") == strings.Join(sortedKeys(state), "\n"), "a tree walk sees exactly the entries of the overlay")
}

// layerSizes parses "2,1" into entry counts per layer (bottom first).
func layerSizes(s string) []int {
	var out []int
	for _, f := range strings.Split(s, ",") {
		n := 0
		for _, c := range f {
			n = n*10 + int(c-'0')
		}
		out = append(out, n)
	}
	return out
}

// VerifOverlay: every image-up-to-layer view equals the OCI overlay of its layers.
func VerifOverlay() {
	vos.Reset()
	sizes := layerSizes(verifrt.ParamStr("layers"))
	nUni := verifrt.Param("universe")
	prefix := []string{"", "./", "/"}[verifrt.Choice("spelling", 3)]
	img := &fakeimg.Image{}
	var specs [][]entrySpec
	opaqueHides, shadowedDir, resurrect := false, false, false
	hiddenAt := map[string]bool{} // directories deleted or replaced (with something beneath them) by some layer
	for li, m := range sizes {
		var layer []entrySpec
		var entries []tarstub.Entry
		for j := 0; j < m; j++ {
			e := entrySpec{path: universe[verifrt.Choice("path", nUni)], kind: verifrt.Choice("kind", nKinds)}
			switch e.kind {
			case kReg:
				e.size = int64(verifrt.IntRange("size", 0, 8))
				e.mode = int64(verifrt.IntRange("mode", 0, 0o777))
			case kDir:
				e.mode = int64(verifrt.IntRange("mode", 0, 0o777))
			}
			// no two entries of one layer for the same path, and no path that one layer uses both as a
			// non-directory and as the parent of another entry (tar archives produced by image builders
			// have neither)
			for _, o := range layer {
				if o.path == e.path {
					verifrt.Assume(false)
				}
				if under(o.path, e.path) && (o.kind == kReg || o.kind == kSymlink) {
					verifrt.Assume(false)
				}
				if under(e.path, o.path) && (e.kind == kReg || e.kind == kSymlink) {
					verifrt.Assume(false)
				}
				// a layer does not both delete a path and create something at or beneath it
				// (builders emit an opaque marker for a directory that is re-created)
				if (o.kind == kWhiteout && under(o.path, e.path)) || (e.kind == kWhiteout && under(e.path, o.path)) {
					verifrt.Assume(false)
				}
			}
			layer = append(layer, e)
			entries = append(entries, e.tarEntry(prefix))
		}
		specs = append(specs, layer)
		img.Ls = append(img.Ls, &fakeimg.Layer{Index: li, Entries: entries})
	}
	cfg := image.DefaultConfig()
	cfg.MaxFileBytes = 1 << 20
	out, err := image.FromV1Image(img, cfg)
	verifrt.Assert(err == nil, "a well-formed image loads")
	if err != nil {
		return
	}
	chain, err := out.ChainLayers()
	verifrt.Assert(err == nil && len(chain) == len(sizes), "one chain layer per image layer")
	if err != nil || len(chain) != len(sizes) {
		return
	}
	state := map[string]*onode{}
	for i := range sizes {
		// whiteouts name things the lower layers provide (as in images produced by builders):
		// the parent of a whited-out entry, and the directory carrying an opaque marker, exist below
		for _, e := range specs[i] {
			if e.kind == kWhiteout {
				if d := path.Dir(e.path); d != "." && (state[d] == nil || state[d].kind != kDir) {
					verifrt.Assume(false)
				}
			}
			if e.kind == kOpaque && (state[e.path] == nil || state[e.path].kind != kDir) {
				verifrt.Assume(false)
			}
		}
		// cause tags of the known findings
		for _, e := range specs[i] {
			// a directory deleted or replaced by an earlier layer exists again (explicitly or as a parent)
			if e.kind != kWhiteout {
				below := e.path
				if e.kind == kDir || e.kind == kOpaque {
					below = e.path + "/x"
				}
				for d := path.Dir(below); d != "." && d != "/"; d = path.Dir(d) {
					if hiddenAt[d] {
						resurrect = true
					}
				}
			}
			// an opaque marker that actually hides lower-layer children
			if e.kind == kOpaque {
				for p := range state {
					if under(e.path, p) {
						opaqueHides = true
					}
				}
			}
			// something is created beneath a directory that a lower layer lists explicitly, while
			// this layer has no entry for that directory itself
			{
				below := e.path
				if e.kind == kOpaque {
					below = e.path + "/x"
				}
				for d := path.Dir(below); d != "." && d != "/"; d = path.Dir(d) {
					if n := state[d]; n != nil && n.kind == kDir && !n.implicit {
						listed := false
						for _, o := range specs[i] {
							if o.path == d && o.kind == kDir {
								listed = true
							}
						}
						if !listed {
							shadowedDir = true
						}
					}
				}
			}
		}
		// ... or the layer lists a directory after an entry beneath it
		for j, e := range specs[i] {
			if e.kind == kDir {
				for _, o := range specs[i][:j] {
					if under(e.path, o.path) || (o.kind == kOpaque && o.path == e.path) {
						shadowedDir = true
					}
				}
			}
		}
		for _, e := range specs[i] {
			if e.kind == kWhiteout || e.kind == kReg || e.kind == kSymlink {
				if n := state[e.path]; n != nil && n.kind == kDir {
					hiddenAt[e.path] = true
				}
				// deleting/replacing a directory also hides every directory beneath it
				for p, n := range state {
					if under(e.path, p) && n.kind == kDir {
						hiddenAt[p] = true
					}
				}
			}
		}
		apply(state, specs[i], i)
		verifrt.TagIf(resurrect, "C04-recreated-directory-resurrects-hidden-entries")
		verifrt.TagIf(opaqueHides, "C04-opaque-whiteout-hides-lower-children")
		verifrt.TagIf(shadowedDir, "C04-implicit-directory-shadows-lower-directory-metadata")
		checkView(chain[i].FS(), state, i, true)
	}
	verifrt.Reach("views-checked")
	out.CleanUp()
}

// symRequirer requires a path according to one (possibly symbolic) bit per universe path.
type symRequirer struct{ bits map[string]bool }

func (r *symRequirer) FileRequired(p string, _ fs.FileInfo) bool {
	return r.bits[strings.TrimPrefix(p, "/")]
}

// VerifRequirer: loading with a restriction to required files changes nothing except that
// non-required regular files are absent from the final view (intermediate views are untouched).
func VerifRequirer() {
	vos.Reset()
	sizes := layerSizes(verifrt.ParamStr("layers"))
	nUni := verifrt.Param("universe")
	img := &fakeimg.Image{}
	var specs [][]entrySpec
	for li, m := range sizes {
		var layer []entrySpec
		var entries []tarstub.Entry
		for j := 0; j < m; j++ {
			// regular files, directories and symlinks (whiteouts are the subject of VerifOverlay)
			e := entrySpec{path: universe[verifrt.Choice("path", nUni)], kind: verifrt.Choice("kind", 3)}
			if e.kind == kReg {
				e.size = int64(verifrt.IntRange("size", 0, 8))
				e.mode = 0o644
			}
			if e.kind == kDir {
				e.mode = 0o755
			}
			for _, o := range layer {
				if o.path == e.path || (under(o.path, e.path) && o.kind != kDir) || (under(e.path, o.path) && e.kind != kDir) {
					verifrt.Assume(false)
				}
			}
			layer = append(layer, e)
			entries = append(entries, e.tarEntry(""))
		}
		specs = append(specs, layer)
		img.Ls = append(img.Ls, &fakeimg.Layer{Index: li, Entries: entries})
	}
	req := &symRequirer{bits: map[string]bool{}}
	for _, p := range universe[:nUni] {
		req.bits[p] = verifrt.Bool("required")
	}
	// history: none / one metadata-only (empty-layer) entry after the last layer / one before it.
	// views[k] = index of the last real layer applied in chain view k.
	var views []int
	switch verifrt.Choice("history", 3) {
	case 0:
		for i := range sizes {
			views = append(views, i)
		}
	case 1:
		for i := range sizes {
			img.History = append(img.History, v1.History{CreatedBy: "layer"})
			views = append(views, i)
		}
		img.History = append(img.History, v1.History{CreatedBy: "ENV x=y", EmptyLayer: true})
		views = append(views, len(sizes)-1)
		verifrt.Reach("trailing-empty-history-entry")
	case 2:
		for i := range sizes {
			if i == len(sizes)-1 {
				img.History = append(img.History, v1.History{CreatedBy: "ENV x=y", EmptyLayer: true})
				views = append(views, i-1)
			}
			img.History = append(img.History, v1.History{CreatedBy: "layer"})
			views = append(views, i)
		}
	}
	cfg := image.DefaultConfig()
	cfg.MaxFileBytes = 1 << 20
	cfg.Requirer = req
	out, err := image.FromV1Image(img, cfg)
	verifrt.Assert(err == nil, "a well-formed image loads")
	if err != nil {
		return
	}
	chain, _ := out.ChainLayers()
	verifrt.Assert(len(chain) == len(views), "one view per layer and per history-only entry")
	if len(chain) != len(views) {
		return
	}
	state := map[string]*onode{}
	applied := -1
	for k, upto := range views {
		for applied < upto {
			applied++
			apply(state, specs[applied], applied)
		}
		fsys := chain[k].FS()
		final := k == len(views)-1
		for p, n := range state {
			if n.kind != kReg {
				continue
			}
			info, err := fsys.Stat(p)
			// a file that a required symlink points to is kept as well
			linked := false
			for q, l := range state {
				if l.kind == kSymlink && l.target == "/"+p {
					linked = verifrt.Or(linked, req.bits[q])
				}
			}
			want := true
			if final {
				want = verifrt.Or(req.bits[p], linked)
			}
			verifrt.Assert(verifrt.Iff(err == nil, want), "with a file requirer a regular file is in the final view iff it is required (or the target of a required symlink); earlier views are unchanged: "+p)
			if err == nil {
				verifrt.Assert(info.Size() == n.size, "a required file keeps its size: "+p)
				if f, oerr := fsys.Open(p); oerr != nil {
					verifrt.Fail("a file present in a view can be opened: " + p)
				} else {
					f.Close()
				}
				verifrt.Reach("kept")
			} else {
				verifrt.Reach("pruned")
			}
		}
	}
	out.CleanUp()
}

// VerifTwin must be violated.
func VerifTwin() {
	vos.Reset()
	img := &fakeimg.Image{Ls: []*fakeimg.Layer{{Index: 0, Entries: []tarstub.Entry{
		{Name: "f", Typeflag: tar.TypeReg, Mode: 0o644, Size: int64(verifrt.IntRange("size", 0, 8))}}}}}
	out, err := image.FromV1Image(img, image.DefaultConfig())
	if err != nil {
		return
	}
	chain, _ := out.ChainLayers()
	if _, err := chain[0].FS().Stat("f"); err == nil {
		verifrt.Fail("twin")
	}
}
