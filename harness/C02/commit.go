package commitextractor

import "github.com/google/osv-scalibr/internal/verifrt"

// VerifCommitExtractor: TryExtractCommit terminates without panicking on every string of n bytes
// (it is summarised in the package-lock.json run of the decoded harness).
func VerifCommitExtractor() {
	s := verifrt.String("resolution", verifrt.Param("n"))
	c := TryExtractCommit(s)
	verifrt.ObserveStr("commit", c)
	verifrt.Reach("ok")
}
