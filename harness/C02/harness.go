// Package c02 is the harness for C02 (overlay-only package internal/verifh/c02).
package c02

import (
	"bytes"
	"context"
	"io/fs"
	"time"

	"github.com/google/osv-scalibr/extractor/filesystem"
	"github.com/google/osv-scalibr/extractor/filesystem/language/elixir/mixlock"
	erlangmixlock "github.com/google/osv-scalibr/extractor/filesystem/language/erlang/mixlock"
	"github.com/google/osv-scalibr/extractor/filesystem/language/golang/gomod"
	"github.com/google/osv-scalibr/extractor/filesystem/language/haskell/cabal"
	"github.com/google/osv-scalibr/extractor/filesystem/language/haskell/stacklock"
	"github.com/google/osv-scalibr/extractor/filesystem/language/java/gradlelockfile"
	"github.com/google/osv-scalibr/extractor/filesystem/language/javascript/yarnlock"
	"github.com/google/osv-scalibr/extractor/filesystem/language/python/requirements"
	"github.com/google/osv-scalibr/extractor/filesystem/language/python/setup"
	"github.com/google/osv-scalibr/extractor/filesystem/language/python/wheelegg"
	"github.com/google/osv-scalibr/extractor/filesystem/language/ruby/gemfilelock"
	"github.com/google/osv-scalibr/extractor/filesystem/language/ruby/gemspec"
	wpplugins "github.com/google/osv-scalibr/extractor/filesystem/misc/wordpress/plugins"
	"github.com/google/osv-scalibr/extractor/filesystem/os/apk"
	"github.com/google/osv-scalibr/extractor/filesystem/os/dpkg"
	"github.com/google/osv-scalibr/extractor/filesystem/os/homebrew"
	"github.com/google/osv-scalibr/extractor/filesystem/os/nix"
	"github.com/google/osv-scalibr/extractor/filesystem/os/pacman"
	"github.com/google/osv-scalibr/extractor/filesystem/os/portage"
	"github.com/google/osv-scalibr/extractor/filesystem/simplefileapi"
	"github.com/google/osv-scalibr/internal/verifrt"
	"github.com/google/osv-scalibr/internal/verifrt/symfs"
)

type target struct {
	mk   func() filesystem.Extractor
	path string
}

var targets = map[string]target{
	"apk":            {apk.NewDefault, "lib/apk/db/installed"},
	"dpkg":           {dpkg.NewDefault, "var/lib/dpkg/status"},
	"pacman":         {pacman.NewDefault, "var/lib/pacman/local/zstd-1.5.6-1/desc"},
	"portage":        {portage.NewDefault, "var/db/pkg/app-misc/foo-1.0/PF"},
	"homebrew":       {homebrew.New, "usr/local/Cellar/rclone/1.67.0/INSTALL_RECEIPT.json"},
	"nix":            {nix.New, "nix/store/xakcaxsqdzjszym0vji2r8n0wdc2inqi-perl5.38.2-FCGI-ProcManager-0.28/foo"},
	"gradlelockfile": {gradlelockfile.New, "gradle.lockfile"},
	"requirements":   {requirements.NewDefault, "requirements.txt"},
	"setup":          {setup.NewDefault, "setup.py"},
	"gemfilelock":    {gemfilelock.New, "Gemfile.lock"},
	"gemspec":        {gemspec.NewDefault, "specifications/foo-1.0.gemspec"},
	"yarnlock":       {yarnlock.New, "yarn.lock"},
	"erlang-mixlock": {erlangmixlock.New, "mix.lock"},
	"elixir-mixlock": {mixlock.NewDefault, "mix.lock"},
	"cabal":          {cabal.NewDefault, "cabal.project.freeze"},
	"stacklock":      {stacklock.NewDefault, "stack.yaml.lock"},
	"gomod":          {gomod.New, "go.mod"},
	"wheelegg":       {wheelegg.NewDefault, "site-packages/a-1.0.dist-info/METADATA"},
	"wordpress":      {wpplugins.NewDefault, "wp-content/plugins/a/a.php"},
}

// templates are small well-formed files of each format (after the extractors' own fixtures);
// VerifMutate overwrites a window of them with arbitrary bytes.
var templates = map[string]string{
	"dpkg":           "Package: a\nStatus: install ok installed\nVersion: 1\nSource: s (2)\nArchitecture: all\n\n",
	"apk":            "P:a\nV:1\no:o\nA:x\nL:MIT\nm:me\nc:abc\n\n",
	"requirements":   "a==1.0 \\\n --hash=sha256:ab # c\n-r x.txt\nb>=2; python_version<'3'\n",
	"gradlelockfile": "# c\ng:a:1=compileClasspath\nempty=\n",
	"gemfilelock":    "GEM\n  remote: r\n  specs:\n    a (1)\n      b (~> 2)\n\nPLATFORMS\n  ruby\n\nDEPENDENCIES\n  a\n",
	"gomod":          "module m\n\ngo 1.20\n\nrequire (\n\ta.b/c v1.0.0 // indirect\n)\n\nreplace a.b/c => ../d\n",
	"yarnlock":       "# yarn lockfile v1\n\n\"a@^1\":\n  version \"1.0\"\n  resolved \"u#h\"\n",
	"pacman":         "%NAME%\nzstd\n\n%VERSION%\n1-1\n\n%DEPENDS%\nglibc\n\n",
	"portage":        "foo-1.0\n",
	"cabal":          "constraints: any.a ==1.0,\n             any.b ==2\n",
	"stacklock":      "packages:\n- completed:\n    hackage: a-1.0@sha256:x,1\n",
	"erlang-mixlock": "%{\n  \"a\": {:hex, :a, \"1.0\", \"h\", [:mix], [], \"hexpm\", \"s\"},\n}\n",
	"elixir-mixlock": "%{\n  \"a\": {:hex, :a, \"1.0\", \"h\", [:mix], [], \"hexpm\", \"s\"},\n}\n",
	"gemspec":        "Gem::Specification.new do |s|\n  s.name = \"a\".freeze\n  s.version = \"1.0\"\nend\n",
	"setup":          "setup(\n  install_requires=[\n    'a==1.0',\n    \"b>=2\",\n  ],\n)\n",
	"wheelegg":       "Metadata-Version: 2.1\nName: a\nVersion: 1.0\nAuthor: x\n\nbody\n",
	"wordpress":      "<?php\n/*\n * Plugin Name: A\n * Version: 1.0\n */\n",
	"homebrew":       "{}\n",
	"nix":            "x",
	"os-release":     "ID=debian\n# c\nVERSION_ID=\"12\"\nVERSION_CODENAME=b\n",
}

type info struct {
	name string
	size int64
}

func (i info) Name() string       { return i.name }
func (i info) Size() int64        { return i.size }
func (i info) Mode() fs.FileMode  { return 0o644 }
func (i info) ModTime() time.Time { return time.Time{} }
func (i info) IsDir() bool        { return false }
func (i info) Sys() any           { return nil }

// VerifExtract: no content makes the extractor panic or exceed the step budget.
func VerifExtract() {
	t, ok := targets[verifrt.ParamStr("extractor")]
	if !ok {
		panic("unknown extractor " + verifrt.ParamStr("extractor"))
	}
	n := verifrt.Param("n")
	buf := verifrt.Bytes("content", n)
	if verifrt.ParamStr("alphabet") == "ascii" {
		for i := range buf {
			// printable ASCII plus newline and tab
			verifrt.Assume(verifrt.Or(verifrt.And(buf[i] >= 0x20, buf[i] < 0x7f), verifrt.Or(buf[i] == '\n', buf[i] == '\t')))
		}
	}
	fsys := &symfs.FS{Root: symfs.Dir(".", symfs.Dir("etc", symfs.File("os-release", "ID=debian\nVERSION_ID=12\n")))}
	e := t.mk()
	inv, err := e.Extract(context.Background(), &filesystem.ScanInput{
		FS:     fsys,
		Path:   t.path,
		Info:   info{name: t.path, size: int64(n)},
		Reader: bytes.NewReader(buf),
	})
	if err != nil {
		verifrt.Reach("error")
	} else {
		verifrt.Reach("ok")
	}
	verifrt.ObserveInt("packages", len(inv.Packages))
	// every emitted package is well-formed and convertible (C14's clause for these extractors)
	for _, p := range inv.Packages {
		verifrt.Assert(len(p.Locations) > 0, "an emitted package has at least one location")
		verifrt.Assert(p.Name != "", "an emitted package has a non-empty name")
		p.Extractor = e
		if u := e.ToPURL(p); u != nil {
			verifrt.Assert(u.Type != "", "an emitted package's PURL has a type")
		}
	}
}

// VerifMutate: a well-formed file with one window of k arbitrary bytes (or truncated there).
func VerifMutate() {
	name := verifrt.ParamStr("extractor")
	t := targets[name]
	tpl := []byte(templates[name])
	k := verifrt.Param("k")
	stride := verifrt.Param("stride")
	npos := (len(tpl) + stride - 1) / stride
	pos := verifrt.Choice("position", npos) * stride
	truncate := verifrt.Choice("truncate", 2) == 1
	hole := verifrt.Bytes("hole", k)
	buf := append([]byte{}, tpl[:pos]...)
	buf = append(buf, hole...)
	if !truncate && pos+k < len(tpl) {
		buf = append(buf, tpl[pos+k:]...)
	}
	fsys := &symfs.FS{Root: symfs.Dir(".", symfs.Dir("etc", symfs.File("os-release", "ID=debian\nVERSION_ID=12\n")))}
	e := t.mk()
	inv, err := e.Extract(context.Background(), &filesystem.ScanInput{
		FS:     fsys,
		Path:   t.path,
		Info:   info{name: t.path, size: int64(len(buf))},
		Reader: bytes.NewReader(buf),
	})
	if err != nil {
		verifrt.Reach("error")
	} else {
		verifrt.Reach("ok")
	}
	verifrt.ObserveInt("packages", len(inv.Packages))
	for _, p := range inv.Packages {
		verifrt.Assert(len(p.Locations) > 0, "an emitted package has at least one location")
		verifrt.Assert(p.Name != "", "an emitted package has a non-empty name")
		p.Extractor = e
		if u := e.ToPURL(p); u != nil {
			verifrt.Assert(u.Type != "", "an emitted package's PURL has a type")
		}
	}
}

// VerifOSRelease: the OS extractors also read etc/os-release from the scanned tree; no content of
// that file makes them panic either. The package database itself is the well-formed template.
// k = 0: the whole os-release file is n arbitrary bytes; k > 0: a window of k arbitrary bytes in a
// well-formed os-release file.
func VerifOSRelease() {
	name := verifrt.ParamStr("extractor")
	t := targets[name]
	tpl := []byte(templates[name])
	var rel []byte
	if k := verifrt.Param("k"); k > 0 {
		base := []byte(templates["os-release"])
		pos := verifrt.Choice("position", len(base))
		truncate := verifrt.Choice("truncate", 2) == 1
		rel = append([]byte{}, base[:pos]...)
		rel = append(rel, verifrt.Bytes("hole", k)...)
		if !truncate && pos+k < len(base) {
			rel = append(rel, base[pos+k:]...)
		}
	} else {
		rel = verifrt.Bytes("osrelease", verifrt.Param("n"))
	}
	fsys := &symfs.FS{Root: symfs.Dir(".", symfs.Dir("etc", &symfs.Node{Name: "os-release", Mode: 0o644, Size: int64(len(rel)), Data: rel}))}
	e := t.mk()
	inv, err := e.Extract(context.Background(), &filesystem.ScanInput{
		FS:     fsys,
		Path:   t.path,
		Info:   info{name: t.path, size: int64(len(tpl))},
		Reader: bytes.NewReader(tpl),
	})
	if err != nil {
		verifrt.Reach("error")
	} else {
		verifrt.Reach("ok")
	}
	verifrt.ObserveInt("packages", len(inv.Packages))
	for _, p := range inv.Packages {
		verifrt.Assert(len(p.Locations) > 0, "an emitted package has at least one location")
		verifrt.Assert(p.Name != "", "an emitted package has a non-empty name")
		p.Extractor = e
		if u := e.ToPURL(p); u != nil {
			verifrt.Assert(u.Type != "", "an emitted package's PURL has a type")
		}
	}
}

// VerifPath: the path is an input of Extract too ("any path the extractor accepts"). The canonical
// path of the format with a window of k arbitrary bytes (or cut off there); if FileRequired
// accepts it, Extract on the well-formed template must not panic.
func VerifPath() {
	name := verifrt.ParamStr("extractor")
	t := targets[name]
	tpl := []byte(templates[name])
	k := verifrt.Param("k")
	base := []byte(t.path)
	pos := verifrt.Choice("position", len(base))
	truncate := verifrt.Choice("truncate", 2) == 1
	p := append([]byte{}, base[:pos]...)
	hole := verifrt.Bytes("hole", k)
	for i := range hole {
		verifrt.Assume(hole[i] != 0)
	}
	p = append(p, hole...)
	if !truncate && pos+k < len(base) {
		p = append(p, base[pos+k:]...)
	}
	path := string(p)
	fsys := &symfs.FS{Root: symfs.Dir(".", symfs.Dir("etc", symfs.File("os-release", "ID=debian\nVERSION_ID=12\n")))}
	e := t.mk()
	if !e.FileRequired(simplefileapi.New(path, info{name: path, size: int64(len(tpl))})) {
		verifrt.Reach("not-required")
		return
	}
	verifrt.Reach("required")
	inv, err := e.Extract(context.Background(), &filesystem.ScanInput{
		FS:     fsys,
		Path:   path,
		Info:   info{name: path, size: int64(len(tpl))},
		Reader: bytes.NewReader(tpl),
	})
	if err != nil {
		verifrt.Reach("error")
	} else {
		verifrt.Reach("ok")
	}
	verifrt.ObserveInt("packages", len(inv.Packages))
	for _, p := range inv.Packages {
		verifrt.Assert(len(p.Locations) > 0, "an emitted package has at least one location")
		verifrt.Assert(p.Name != "", "an emitted package has a non-empty name")
		p.Extractor = e
		if u := e.ToPURL(p); u != nil {
			verifrt.Assert(u.Type != "", "an emitted package's PURL has a type")
		}
	}
}

// VerifTwin must be violated.
func VerifTwin() {
	buf := verifrt.Bytes("content", 2)
	e := gradlelockfile.New()
	if _, err := e.Extract(context.Background(), &filesystem.ScanInput{Path: "gradle.lockfile", Reader: bytes.NewReader(buf)}); err == nil {
		verifrt.Fail("twin")
	}
}
