package c02

// Extractors whose parser is a reflection-driven decoder (encoding/json, BurntSushi/toml,
// yaml.v3). The symbolic executor cannot run those decoders; it replaces them by a
// nondeterministic stub that hands the extractor an ARBITRARY value of the decode target's type
// (verifrt.Arbitrary: lazily built, bounded strings/slices/maps, nil and non-nil pointers), so
// that the extractor's own code - everything after decoding - runs on every decoded shape. A
// counterexample's document is rendered as text and replayed natively through the real decoder.

import (
	"bytes"
	"context"
	"encoding/json"
	"encoding/xml"
	"io"

	"github.com/BurntSushi/toml"
	"github.com/google/osv-scalibr/extractor/filesystem"
	"github.com/google/osv-scalibr/extractor/filesystem/language/cpp/conanlock"
	"github.com/google/osv-scalibr/extractor/filesystem/language/dart/pubspec"
	"github.com/google/osv-scalibr/extractor/filesystem/language/dotnet/depsjson"
	"github.com/google/osv-scalibr/extractor/filesystem/language/dotnet/packagesconfig"
	"github.com/google/osv-scalibr/extractor/filesystem/language/dotnet/packageslockjson"
	"github.com/google/osv-scalibr/extractor/filesystem/language/java/gradleverificationmetadataxml"
	"github.com/google/osv-scalibr/extractor/filesystem/language/javascript/bunlock"
	"github.com/google/osv-scalibr/extractor/filesystem/language/javascript/packagejson"
	"github.com/google/osv-scalibr/extractor/filesystem/language/javascript/packagelockjson"
	"github.com/google/osv-scalibr/extractor/filesystem/language/javascript/pnpmlock"
	"github.com/google/osv-scalibr/extractor/filesystem/language/php/composerlock"
	"github.com/google/osv-scalibr/extractor/filesystem/language/python/condameta"
	"github.com/google/osv-scalibr/extractor/filesystem/language/python/pdmlock"
	"github.com/google/osv-scalibr/extractor/filesystem/language/python/pipfilelock"
	"github.com/google/osv-scalibr/extractor/filesystem/language/python/poetrylock"
	"github.com/google/osv-scalibr/extractor/filesystem/language/python/uvlock"
	"github.com/google/osv-scalibr/extractor/filesystem/language/r/renvlock"
	"github.com/google/osv-scalibr/extractor/filesystem/language/rust/cargolock"
	"github.com/google/osv-scalibr/extractor/filesystem/language/rust/cargotoml"
	"github.com/google/osv-scalibr/extractor/filesystem/language/swift/packageresolved"
	"github.com/google/osv-scalibr/extractor/filesystem/language/swift/podfilelock"
	chromeextensions "github.com/google/osv-scalibr/extractor/filesystem/misc/chrome/extensions"
	"github.com/google/osv-scalibr/extractor/filesystem/misc/vscodeextensions"
	"github.com/google/osv-scalibr/extractor/filesystem/os/cos"
	"github.com/google/osv-scalibr/extractor/filesystem/os/flatpak"
	"github.com/google/osv-scalibr/extractor/filesystem/os/snap"
	"github.com/google/osv-scalibr/internal/verifrt"
	"github.com/google/osv-scalibr/internal/verifrt/symfs"
	"gopkg.in/yaml.v3"
)

var decodedTargets = map[string]target{
	"bunlock":            {bunlock.New, "bun.lock"},
	"composerlock":       {composerlock.New, "composer.lock"},
	"packagelockjson":    {packagelockjson.NewDefault, "package-lock.json"},
	"vscodeextensions":   {vscodeextensions.New, "home/u/.vscode/extensions/extensions.json"},
	"conanlock":          {conanlock.New, "conan.lock"},
	"pipfilelock":        {pipfilelock.New, "Pipfile.lock"},
	"renvlock":           {renvlock.New, "renv.lock"},
	"chromeextensions":   {chromeextensions.New, "home/u/.config/google-chrome/Default/Extensions/abcdefghijklmnopabcdefghijklmnop/1.0/manifest.json"},
	"cos":                {cos.NewDefault, "etc/cos-package-info.json"},
	"packageslockjson":   {packageslockjson.NewDefault, "packages.lock.json"},
	"depsjson":           {depsjson.NewDefault, "app.deps.json"},
	"condameta":          {condameta.NewDefault, "envs/e/conda-meta/a-1.0-0.json"},
	"packageresolved":    {packageresolved.NewDefault, "Package.resolved"},
	"cargolock":          {cargolock.New, "Cargo.lock"},
	"poetrylock":         {poetrylock.New, "poetry.lock"},
	"pdmlock":            {pdmlock.New, "pdm.lock"},
	"uvlock":             {uvlock.New, "uv.lock"},
	"pnpmlock":           {pnpmlock.New, "pnpm-lock.yaml"},
	"snap":               {snap.NewDefault, "snap/core/1/meta/snap.yaml"},
	"podfilelock":        {podfilelock.NewDefault, "Podfile.lock"},
	"packagejson":        {packagejson.NewDefault, "node_modules/a/package.json"},
	"pubspec":            {pubspec.New, "pubspec.lock"},
	"cargotoml":          {cargotoml.New, "Cargo.toml"},
	"gradleverification": {gradleverificationmetadataxml.New, "gradle/verification-metadata.xml"},
	"flatpak":            {flatpak.NewDefault, "var/lib/flatpak/app/a/current/active/export/share/metainfo/a.metainfo.xml"},
	"packagesconfig":     {packagesconfig.NewDefault, "packages.config"},
}

// the decoder stubs (symbolic executor only; natively the real decoders run)
var nDocs int

func stubDocName() string {
	nDocs++
	if nDocs == 1 {
		return "doc"
	}
	// a second document (e.g. chrome's message catalogue) is not modelled: decoding fails
	return ""
}

type stubDecodeError struct{}

func (stubDecodeError) Error() string {
	return "verif: decoder stub: further documents are not modelled"
}

func stubJSONDecode(d *json.Decoder, v any) error {
	name := stubDocName()
	if name == "" {
		return stubDecodeError{}
	}
	verifrt.Arbitrary(v, name, "json")
	return nil
}

func stubJSONUnmarshal(data []byte, v any) error {
	name := stubDocName()
	if name == "" {
		return stubDecodeError{}
	}
	verifrt.Arbitrary(v, name, "json")
	return nil
}

func stubTOMLDecode(d *toml.Decoder, v any) (toml.MetaData, error) {
	name := stubDocName()
	if name == "" {
		return toml.MetaData{}, stubDecodeError{}
	}
	verifrt.Arbitrary(v, name, "toml")
	return toml.MetaData{}, nil
}

func stubYAMLDecode(d *yaml.Decoder, v any) error {
	name := stubDocName()
	if name == "" {
		return stubDecodeError{}
	}
	verifrt.Arbitrary(v, name, "yaml")
	return nil
}

func stubYAMLUnmarshal(data []byte, v any) error {
	name := stubDocName()
	if name == "" {
		return stubDecodeError{}
	}
	verifrt.Arbitrary(v, name, "yaml")
	return nil
}

func stubXMLDecode(d *xml.Decoder, v any) error {
	name := stubDocName()
	if name == "" {
		return stubDecodeError{}
	}
	verifrt.Arbitrary(v, name, "xml")
	return nil
}

var verifReplacements = map[string]any{
	"(*encoding/xml.Decoder).Decode":               stubXMLDecode,
	"(*gopkg.in/yaml.v3.Decoder).Decode":           stubYAMLDecode,
	"gopkg.in/yaml.v3.Unmarshal":                   stubYAMLUnmarshal,
	"(*encoding/json.Decoder).Decode":              stubJSONDecode,
	"encoding/json.Unmarshal":                      stubJSONUnmarshal,
	"(*github.com/BurntSushi/toml.Decoder).Decode": stubTOMLDecode,
}

// Summary of a pure callee for the runs that ask for it (parameter summarise_commit=1):
// commitextractor.TryExtractCommit runs several regular expressions over the string, which
// multiplies the paths of every caller; its own totality is run commitextractor-4 (second unit).
func stubTryExtractCommit(resolution string) string {
	if verifrt.Choice("commit-extracted", 2) == 1 {
		return "0123abc"
	}
	return ""
}

// Bounded model of strconv.ParseFloat for the runs that ask for it (parameter
// model_parsefloat=1): the numeric strings of the bound are the three literals below, every other
// string is outside the bound (the path is dropped, not judged). Exact on what it admits.
func stubParseFloat(s string, bitSize int) (float64, error) {
	switch {
	case verifrt.StrEq(s, "5.4"):
		return 5.4, nil
	case verifrt.StrEq(s, "6.0"):
		return 6.0, nil
	case verifrt.StrEq(s, "9.0"):
		return 9.0, nil
	}
	verifrt.Assume(false)
	return 0, nil
}

var verifReplacementsIf = map[string]any{
	"model_parsefloat=1|strconv.ParseFloat": stubParseFloat,
	"summarise_commit=1|github.com/google/osv-scalibr/extractor/filesystem/language/javascript/internal/commitextractor.TryExtractCommit": stubTryExtractCommit,
}

// VerifDecoded: whatever value the decoder hands over, Extract does not panic, stays within the
// step budget, and every package it emits is well-formed.
func VerifDecoded() {
	nDocs = 0
	name := verifrt.ParamStr("extractor")
	t, ok := decodedTargets[name]
	if !ok {
		panic("unknown extractor " + name)
	}
	data := verifrt.Document("doc")
	fsys := &symfs.FS{Root: symfs.Dir(".", symfs.Dir("etc", symfs.File("os-release", "ID=debian\nVERSION_ID=12\n")))}
	e := t.mk()
	inv, err := e.Extract(context.Background(), &filesystem.ScanInput{
		FS:     fsys,
		Path:   t.path,
		Info:   info{name: t.path, size: int64(len(data))},
		Reader: io.Reader(bytes.NewReader(data)),
	})
	if err != nil {
		verifrt.Reach("error")
	} else {
		verifrt.Reach("ok")
	}
	verifrt.ObserveInt("packages", len(inv.Packages))
	if len(inv.Packages) > 0 {
		verifrt.Reach("package-emitted")
	}
	for _, p := range inv.Packages {
		// chrome/extensions emits its package without any location (known finding, a clause of C14)
		verifrt.TagIf(name == "chromeextensions", "C14-chrome-extension-package-without-location")
		verifrt.Assert(len(p.Locations) > 0, "an emitted package has at least one location")
		verifrt.Assert(p.Name != "", "an emitted package has a non-empty name")
		p.Extractor = e
	}
	// the PURL conversion runs on the first package only: several conversions in a row multiply
	// the paths of name normalisation (they are independent of each other)
	if len(inv.Packages) > 0 {
		if u := e.ToPURL(inv.Packages[0]); u != nil {
			verifrt.Assert(u.Type != "", "an emitted package's PURL has a type")
		}
	}
}
