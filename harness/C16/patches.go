// Package c16patches is the harness for C16's patch-computation clause
// (overlay-only package guidedremediation/internal/verifh/c16patches).
package c16patches

import (
	"fmt"
	"strings"
	"sync"

	"deps.dev/util/resolve"
	"deps.dev/util/resolve/dep"
	"github.com/google/osv-scalibr/guidedremediation/internal/manifest"
	"github.com/google/osv-scalibr/guidedremediation/internal/remediation"
	"github.com/google/osv-scalibr/guidedremediation/internal/resolution"
	"github.com/google/osv-scalibr/guidedremediation/internal/strategy/common"
	"github.com/google/osv-scalibr/guidedremediation/result"
	"github.com/google/osv-scalibr/internal/verifrt"
	"github.com/ossf/osv-schema/bindings/go/osvschema"
)

type fakeManifest struct{ reqs []resolve.RequirementVersion }

func (m *fakeManifest) FilePath() string                           { return "package.json" }
func (m *fakeManifest) Root() resolve.Version                      { return resolve.Version{} }
func (m *fakeManifest) System() resolve.System                     { return resolve.NPM }
func (m *fakeManifest) Requirements() []resolve.RequirementVersion { return m.reqs }
func (m *fakeManifest) Groups() map[manifest.RequirementKey][]string {
	return map[manifest.RequirementKey][]string{}
}
func (m *fakeManifest) LocalManifests() []manifest.Manifest               { return nil }
func (m *fakeManifest) EcosystemSpecific() any                            { return nil }
func (m *fakeManifest) PatchRequirement(resolve.RequirementVersion) error { return nil }
func (m *fakeManifest) Clone() manifest.Manifest {
	return &fakeManifest{append([]resolve.RequirementVersion(nil), m.reqs...)}
}

func req(name, version string) resolve.RequirementVersion {
	return resolve.RequirementVersion{
		VersionKey: resolve.VersionKey{PackageKey: resolve.PackageKey{System: resolve.NPM, Name: name}, VersionType: resolve.Requirement, Version: version},
		Type:       dep.NewType(),
	}
}

func vuln(id string) resolution.Vulnerability {
	return resolution.Vulnerability{OSV: &osvschema.Vulnerability{ID: id}}
}

func resolved(reqs []resolve.RequirementVersion, vulnIDs ...string) *remediation.ResolvedManifest {
	r := &remediation.ResolvedManifest{Manifest: &fakeManifest{reqs}}
	for _, id := range vulnIDs {
		r.Vulns = append(r.Vulns, vuln(id))
	}
	return r
}

func render(ps []result.Patch) string {
	var sb strings.Builder
	for _, p := range ps {
		sb.WriteString("[")
		for _, u := range p.PackageUpdates {
			fmt.Fprintf(&sb, "%s:%s->%s ", u.Name, u.VersionFrom, u.VersionTo)
		}
		sb.WriteString("fixed=")
		for _, f := range p.Fixed {
			sb.WriteString(f.ID + ",")
		}
		sb.WriteString(" introduced=")
		for _, f := range p.Introduced {
			sb.WriteString(f.ID + ",")
		}
		sb.WriteString("]")
	}
	return sb.String()
}

// scenario: the manifest requires a@1, b@1, c@1 and has vulnerabilities V1 (in a), V2 (in b), V3 (in a and c).
// Patching V1 bumps a to 2 and (when introduce is set) introduces N1; patching {V1,N1} bumps a to 3;
// patching V2 bumps b to 2; patching V3 bumps a to 2 and c to 2 (so it also fixes V1: a duplicate patch shape);
// impossible marks one vulnerability as unpatchable.
func patchFunc(base []resolve.RequirementVersion, nVulns int, introduce bool, impossible int) common.PatchFunc {
	all := []string{"V1", "V2", "V3"}[:nVulns]
	without := func(ids ...string) []string {
		var out []string
		for _, v := range all {
			keep := true
			for _, id := range ids {
				if id == v {
					keep = false
				}
			}
			if keep {
				out = append(out, v)
			}
		}
		return out
	}
	with := func(m map[string]string) []resolve.RequirementVersion {
		var out []resolve.RequirementVersion
		for _, r := range base {
			if v, ok := m[r.Name]; ok {
				out = append(out, req(r.Name, v))
			} else {
				out = append(out, r)
			}
		}
		return out
	}
	return func(ids []string) common.StrategyResult {
		verifrt.Yield()
		key := strings.Join(ids, "+")
		res := common.StrategyResult{VulnIDs: ids}
		for i, v := range all {
			if i+1 == impossible && key == v {
				res.Err = common.ErrPatchImpossible
				return res
			}
		}
		switch key {
		case "V1":
			remaining := without("V1")
			if introduce {
				remaining = append(remaining, "N1")
			}
			res.Resolved = resolved(with(map[string]string{"a": "2.0.0"}), remaining...)
		case "V1+N1":
			res.Resolved = resolved(with(map[string]string{"a": "3.0.0"}), without("V1")...)
		case "V2":
			res.Resolved = resolved(with(map[string]string{"b": "2.0.0"}), without("V2")...)
		case "V3":
			res.Resolved = resolved(with(map[string]string{"a": "2.0.0", "c": "2.0.0"}), without("V1", "V3")...)
		default:
			res.Err = common.ErrPatchImpossible
		}
		return res
	}
}

// VerifPatches: ComputePatches returns the same sorted, de-duplicated list under every schedule.
func VerifPatches() {
	nVulns := verifrt.Param("vulns")
	introduce, group, impossible := false, false, 0
	if verifrt.Param("variants") == 1 {
		introduce = verifrt.Choice("introduces-a-vulnerability", 2) == 1
		group = verifrt.Choice("group-introduced", 2) == 1
		impossible = verifrt.Choice("impossible", nVulns+1) // 0 = none
	}
	base := []resolve.RequirementVersion{req("a", "1.0.0"), req("b", "1.0.0"), req("c", "1.0.0")}
	orig := resolved(base, []string{"V1", "V2", "V3"}[:nVulns]...)
	fn := patchFunc(base, nVulns, introduce, impossible)

	want, err := common.ComputePatches(fn, orig, group) // canonical schedule
	verifrt.Assert(err == nil, "patch computation succeeds")
	verifrt.ExploreSchedules(true)
	if verifrt.Param("map_order") == 1 {
		verifrt.ExploreMapOrder(true)
	}
	got, err := common.ComputePatches(fn, orig, group)
	verifrt.ExploreMapOrder(false)
	verifrt.ExploreSchedules(false)
	verifrt.Assert(err == nil, "patch computation succeeds under every schedule")
	verifrt.Reach("compared")
	verifrt.Assert(render(got) == render(want), "the patch list is the same under every goroutine interleaving")
	sys := resolve.NPM.Semver()
	for i := 0; i+1 < len(got); i++ {
		c := got[i].Compare(got[i+1], sys)
		verifrt.Assert(c < 0, "the patch list is sorted and has no duplicates")
	}
	if len(got) > 1 {
		verifrt.Reach("several-patches")
	}
}

// VerifPatchChain: a chain of follow-up attempts. Patching A introduces B; patching {A,B}
// introduces C; patching {A,B,C} introduces D and E (each then patched without further vulnerabilities), so that two follow-ups are started from one
// result that already carries three vulnerability IDs. Independently of the schedule every
// introduced vulnerability is attempted exactly once (individual re-patching) and the patch list
// is the canonical one.
func VerifPatchChain() {
	base := []resolve.RequirementVersion{req("lib", "1.0.0")}
	table := map[string]struct {
		version string
		vulns   []string
	}{
		"A":       {"2.0.0", []string{"B"}},
		"A+B":     {"3.0.0", []string{"C"}},
		"A+B+C":   {"4.0.0", []string{"D", "E"}},
		"A+B+C+D": {"5.0.0", nil},
		"A+B+C+E": {"6.0.0", nil},
	}
	var calls []string
	var bk sync.Mutex
	fn := func(ids []string) common.StrategyResult {
		verifrt.Yield()
		key := strings.Join(ids, "+")
		bk.Lock()
		calls = append(calls, key)
		bk.Unlock()
		res := common.StrategyResult{VulnIDs: ids}
		t, ok := table[key]
		if !ok {
			res.Err = common.ErrPatchImpossible
			return res
		}
		res.Resolved = resolved([]resolve.RequirementVersion{req("lib", t.version)}, t.vulns...)
		return res
	}
	orig := resolved(base, "A")
	verifrt.ExploreSchedules(true)
	got, err := common.ComputePatches(fn, orig, false)
	verifrt.ExploreSchedules(false)
	verifrt.Assert(err == nil, "patch computation succeeds under every schedule")
	verifrt.Reach("chain-computed")
	// every attempt the introduced vulnerabilities call for is made, exactly once
	want := []string{"A", "A+B", "A+B+C", "A+B+C+D", "A+B+C+E"}
	sorted := append([]string(nil), calls...)
	for i := range sorted {
		for j := i + 1; j < len(sorted); j++ {
			if sorted[j] < sorted[i] {
				sorted[i], sorted[j] = sorted[j], sorted[i]
			}
		}
	}
	wantSorted := append([]string(nil), want...)
	for i := range wantSorted {
		for j := i + 1; j < len(wantSorted); j++ {
			if wantSorted[j] < wantSorted[i] {
				wantSorted[i], wantSorted[j] = wantSorted[j], wantSorted[i]
			}
		}
	}
	verifrt.Assert(strings.Join(sorted, " ") == strings.Join(wantSorted, " "), "every introduced vulnerability is attempted exactly once, whatever the interleaving")
	sys := resolve.NPM.Semver()
	for i := 0; i+1 < len(got); i++ {
		verifrt.Assert(got[i].Compare(got[i+1], sys) < 0, "the patch list is sorted and has no duplicates")
	}
	verifrt.Assert(len(got) == 5, "the patch list holds one patch per distinct outcome under every interleaving")
}

// VerifPatchTwins: two different attempts yield the same patch. A and B are both fixed by
// lib@2.0.0, which introduces N; the follow-ups {A,N} and {B,N} lead to different patches. Whatever
// attempt finishes first, both follow-ups are made and the list is the canonical one.
func VerifPatchTwins() {
	base := []resolve.RequirementVersion{req("lib", "1.0.0")}
	table := map[string]struct {
		version string
		vulns   []string
	}{
		"A":   {"2.0.0", []string{"N"}},
		"B":   {"2.0.0", []string{"N"}},
		"A+N": {"3.0.0", nil},
		"B+N": {"4.0.0", nil},
	}
	fn := func(ids []string) common.StrategyResult {
		verifrt.Yield()
		res := common.StrategyResult{VulnIDs: ids}
		t, ok := table[strings.Join(ids, "+")]
		if !ok {
			res.Err = common.ErrPatchImpossible
			return res
		}
		res.Resolved = resolved([]resolve.RequirementVersion{req("lib", t.version)}, t.vulns...)
		return res
	}
	orig := resolved(base, "A", "B")
	want, err := common.ComputePatches(fn, orig, true) // canonical schedule
	verifrt.Assert(err == nil, "patch computation succeeds")
	verifrt.ExploreSchedules(true)
	got, err := common.ComputePatches(fn, orig, true)
	verifrt.ExploreSchedules(false)
	verifrt.Assert(err == nil, "patch computation succeeds under every schedule")
	verifrt.Reach("twins-computed")
	verifrt.Assert(render(got) == render(want), "the patch list is the same under every goroutine interleaving")
	sys := resolve.NPM.Semver()
	for i := 0; i+1 < len(got); i++ {
		verifrt.Assert(got[i].Compare(got[i+1], sys) < 0, "the patch list is sorted and has no duplicates")
	}
	verifrt.Assert(len(got) == 3, "the patch list holds one patch per distinct outcome under every interleaving")
}

// VerifPatchRanges: patches whose requirements are ranges (as the relax strategy produces them).
// Two attempts change the same first dependency to the same range and differ in a later one; the
// ordering used for sorting and de-duplication has to tell them apart under every schedule.
func VerifPatchRanges() {
	base := []resolve.RequirementVersion{req("a", "^1.0.0"), req("b", "^1.0.0")}
	fn := func(ids []string) common.StrategyResult {
		verifrt.Yield()
		res := common.StrategyResult{VulnIDs: ids}
		switch strings.Join(ids, "+") {
		case "A":
			res.Resolved = resolved([]resolve.RequirementVersion{req("a", "^2.0.0"), req("b", "^2.0.0")}, "B")
		case "B":
			res.Resolved = resolved([]resolve.RequirementVersion{req("a", "^2.0.0"), req("b", "^3.0.0")}, "A")
		default:
			res.Err = common.ErrPatchImpossible
		}
		return res
	}
	orig := resolved(base, "A", "B")
	want, err := common.ComputePatches(fn, orig, false)
	verifrt.Assert(err == nil, "patch computation succeeds")
	verifrt.ExploreSchedules(true)
	got, err := common.ComputePatches(fn, orig, false)
	verifrt.ExploreSchedules(false)
	verifrt.Assert(err == nil, "patch computation succeeds under every schedule")
	verifrt.Reach("ranges-computed")
	verifrt.Assert(render(got) == render(want), "the patch list is the same under every goroutine interleaving")
	verifrt.Assert(len(got) == 2, "the patch list holds one patch per distinct outcome under every interleaving")
	sys := resolve.NPM.Semver()
	for i := 0; i+1 < len(got); i++ {
		verifrt.Assert(got[i].Compare(got[i+1], sys) < 0, "the patch list is sorted and has no duplicates")
		verifrt.Assert(got[i+1].Compare(got[i], sys) > 0, "the patch ordering is antisymmetric")
	}
}

// VerifTwin must be violated.
func VerifTwin() {
	base := []resolve.RequirementVersion{req("a", "1.0.0"), req("b", "1.0.0"), req("c", "1.0.0")}
	got, _ := common.ComputePatches(patchFunc(base, 2, false, 0), resolved(base, "V1", "V2"), false)
	if len(got) == 2 {
		verifrt.Fail("twin")
	}
}
