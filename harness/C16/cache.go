// Package c16cache is the harness for C16's request-cache clause (overlay-only package internal/verifh/c16cache).
package c16cache

import (
	"errors"
	"sync"

	"github.com/google/osv-scalibr/clients/datasource"
	"github.com/google/osv-scalibr/internal/verifrt"
)

var errFetch = errors.New("fetch failed")

type fetchRec struct {
	key        string
	start, end int // logical times
	ok         bool
	val        int
}

type callRec struct {
	key        string
	start, end int
	val        int
	err        error
}

// VerifCache: concurrent Gets under every schedule (yield points at the entry and exit of the
// fetch callbacks and at every blocking operation).
func VerifCache() {
	n := verifrt.Param("goroutines")
	nkeys := verifrt.Param("keys")
	keys := []string{"k0", "k1"}[:nkeys]
	rc := datasource.NewRequestCache[string, int]()
	// the harness's own bookkeeping is synchronised (natively the goroutines run in parallel)
	var bk sync.Mutex
	clock := 0
	tick := func() int { bk.Lock(); defer bk.Unlock(); clock++; return clock }
	var fetches []*fetchRec
	calls := make([]*callRec, n)
	var wg sync.WaitGroup
	verifrt.ExploreSchedules(true)
	for g := 0; g < n; g++ {
		g := g
		key := keys[g%nkeys]
		wg.Add(1)
		go func() {
			defer wg.Done()
			c := &callRec{key: key, start: tick()}
			calls[g] = c
			c.val, c.err = rc.Get(key, func() (int, error) {
				f := &fetchRec{key: key, start: tick()}
				bk.Lock()
				fetches = append(fetches, f)
				nth := len(fetches)
				bk.Unlock()
				verifrt.Yield()
				fails := verifrt.Bool("fetch-fails")
				verifrt.Yield()
				f.end = tick()
				if fails {
					return 0, errFetch
				}
				f.ok = true
				f.val = 100 + nth
				return f.val, nil
			})
			c.end = tick()
		}()
	}
	wg.Wait()
	verifrt.ExploreSchedules(false)
	verifrt.Reach("all-returned")
	for _, key := range keys {
		// at most one fetch per success: no fetch for the key starts after a successful one ended
		for _, f := range fetches {
			if f.key != key || !f.ok {
				continue
			}
			for _, g := range fetches {
				if g.key == key && g != f {
					verifrt.Assert(g.start < f.end, "no fetch for a key starts after a fetch for it has succeeded")
				}
			}
		}
		// no two fetches for one key overlap (single flight)
		for i, f := range fetches {
			for _, g := range fetches[i+1:] {
				if f.key == key && g.key == key {
					verifrt.Assert(f.end < g.start || g.end < f.start, "fetches for one key never run concurrently")
				}
			}
		}
	}
	// every caller observes the outcome of a fetch for its key that overlaps or precedes its call
	for _, c := range calls {
		found := false
		for _, f := range fetches {
			if f.key != c.key || f.start > c.end {
				continue
			}
			if c.err == nil && f.ok && f.val == c.val {
				found = true
			}
			if c.err != nil && !f.ok && f.end > c.start {
				found = true
			}
		}
		verifrt.Assert(found, "each caller observes the result of some fetch for its key consistent with a sequential order")
	}
	// the cache map holds exactly the successful values
	m := rc.GetMap()
	for _, key := range keys {
		var okVal int
		has := false
		for _, f := range fetches {
			if f.key == key && f.ok {
				has, okVal = true, f.val
			}
		}
		v, in := m[key]
		verifrt.Assert(in == has && (!has || v == okVal), "the cache holds a key iff a fetch for it succeeded, with that value")
	}
	// the map handed out is a snapshot: later lookups do not show in it, and edits to it do not
	// reach the cache
	before := len(m)
	m["snapshot-only"] = -1
	if _, err := rc.Get("fresh", func() (int, error) { return 7, nil }); err != nil {
		verifrt.Fail("a lookup with a succeeding fetch succeeds")
	}
	_, leaked := m["fresh"]
	verifrt.Assert(!leaked && len(m) == before+1, "a map obtained from the cache is a snapshot, unaffected by later lookups")
	_, back := rc.GetMap()["snapshot-only"]
	verifrt.Assert(!back, "edits to a map obtained from the cache do not reach the cache")
	if len(fetches) > nkeys {
		verifrt.Reach("refetched-after-failure")
	}
}

// VerifTwin must be violated.
func VerifTwin() {
	rc := datasource.NewRequestCache[string, int]()
	fails := verifrt.Bool("fails")
	_, err := rc.Get("k", func() (int, error) {
		if fails {
			return 0, errFetch
		}
		return 1, nil
	})
	if err == nil {
		verifrt.Fail("twin")
	}
}
