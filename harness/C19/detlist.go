package list

// Harness for C19: detector/list.FilterByCapabilities, injected by overlay.

import (
	"context"

	"github.com/google/osv-scalibr/detector"
	scalibrfs "github.com/google/osv-scalibr/fs"
	"github.com/google/osv-scalibr/internal/verifrt"
	"github.com/google/osv-scalibr/packageindex"
	"github.com/google/osv-scalibr/plugin"
)

type verifDet struct {
	name string
	req  *plugin.Capabilities
}

func (p verifDet) Name() string                       { return p.name }
func (p verifDet) Version() int                       { return 1 }
func (p verifDet) Requirements() *plugin.Capabilities { return p.req }
func (verifDet) RequiredExtractors() []string         { return nil }
func (verifDet) Scan(context.Context, *scalibrfs.ScanRoot, *packageindex.PackageIndex) ([]*detector.Finding, error) {
	return nil, nil
}

// VerifFilter: filtering keeps exactly the satisfied plugins, in order.
func VerifFilter() {
	caps := plugin.VerifCaps("cap_", 3)
	req := plugin.VerifCaps("req_", 4)
	in := []detector.Detector{
		verifDet{"a", req},
		verifDet{"b", &plugin.Capabilities{}},
		verifDet{"c", &plugin.Capabilities{Network: plugin.NetworkOnline, DirectFS: true}},
	}
	want := []bool{plugin.VerifSatisfies(req, caps), true, verifrt.And(caps.Network == plugin.NetworkOnline, caps.DirectFS)}
	out := FilterByCapabilities(in, caps)
	k := 0
	for i, p := range in {
		kept := k < len(out) && out[k].Name() == p.Name()
		if kept {
			k++
			verifrt.Reach("kept")
		} else {
			verifrt.Reach("dropped")
		}
		verifrt.Assert(verifrt.Iff(kept, want[i]), "plugin kept iff its requirements are satisfied, order preserved")
	}
	verifrt.Assert(k == len(out), "nothing else in the filtered list")
}
