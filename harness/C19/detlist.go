package list

// Harness for C19: detector/list.FilterByCapabilities, injected by overlay.

import (
	"context"
	fslist "github.com/google/osv-scalibr/extractor/filesystem/list"
	salist "github.com/google/osv-scalibr/extractor/standalone/list"

	"github.com/google/osv-scalibr/detector"
	scalibrfs "github.com/google/osv-scalibr/fs"
	"github.com/google/osv-scalibr/internal/verifrt"
	"github.com/google/osv-scalibr/packageindex"
	"github.com/google/osv-scalibr/plugin"
)

type verifDet struct {
	name string
	req  *plugin.Capabilities
}

func (p verifDet) Name() string                       { return p.name }
func (p verifDet) Version() int                       { return 1 }
func (p verifDet) Requirements() *plugin.Capabilities { return p.req }
func (verifDet) RequiredExtractors() []string         { return nil }
func (verifDet) Scan(context.Context, *scalibrfs.ScanRoot, *packageindex.PackageIndex) ([]*detector.Finding, error) {
	return nil, nil
}

// VerifFilter: filtering keeps exactly the satisfied plugins, in order.
func VerifFilter() {
	caps := plugin.VerifCaps("cap_", 3)
	req := plugin.VerifCaps("req_", 4)
	in := []detector.Detector{
		verifDet{"a", req},
		verifDet{"b", &plugin.Capabilities{}},
		verifDet{"c", &plugin.Capabilities{Network: plugin.NetworkOnline, DirectFS: true}},
	}
	want := []bool{plugin.VerifSatisfies(req, caps), true, verifrt.And(caps.Network == plugin.NetworkOnline, caps.DirectFS)}
	out := FilterByCapabilities(in, caps)
	k := 0
	for i, p := range in {
		kept := k < len(out) && out[k].Name() == p.Name()
		if kept {
			k++
			verifrt.Reach("kept")
		} else {
			verifrt.Reach("dropped")
		}
		verifrt.Assert(verifrt.Iff(kept, want[i]), "plugin kept iff its requirements are satisfied, order preserved")
	}
	verifrt.Assert(k == len(out), "nothing else in the filtered list")
}

// VerifNames: detector names are unique, every advertised name resolves, and every extractor a
// detector requires is a name the extractor lists know.
func VerifNames() {
	names := make([]string, 0, len(detectorNames))
	for name := range detectorNames {
		names = append(names, name)
	}
	for i := range names {
		for j := i + 1; j < len(names); j++ {
			if names[j] < names[i] {
				names[i], names[j] = names[j], names[i]
			}
		}
	}
	verifrt.ObserveInt("names", len(names))
	name := names[verifrt.Choice("name", len(names))]
	fns := detectorNames[name]
	if len(fns) == 0 {
		// an advertised collection may be empty (e.g. "default")
		ds, err := DetectorsFromNames([]string{name})
		verifrt.Assert(err == nil && len(ds) == 0, "every advertised group name resolves to its plugins")
		return
	}
	if _, isPlugin := All[name]; isPlugin {
		verifrt.Reach("plugin-name")
		verifrt.Assert(len(fns) == 1, "plugin names are unique")
		ds, err := DetectorsFromNames([]string{name})
		verifrt.Assert(err == nil && len(ds) == 1 && ds[0].Name() == name, "resolving a plugin's own name returns that plugin")
		if err == nil && len(ds) == 1 {
			for _, req := range ds[0].RequiredExtractors() {
				_, e1 := fslist.ExtractorFromName(req)
				_, e2 := salist.ExtractorFromName(req)
				verifrt.Assert(e1 == nil || e2 == nil, "every extractor a detector requires exists under that name")
			}
		}
	} else {
		verifrt.Reach("group-name")
		ds, err := DetectorsFromNames([]string{name})
		verifrt.Assert(err == nil && len(ds) >= 1 && len(ds) <= len(fns), "every advertised group name resolves to its plugins")
	}
}
