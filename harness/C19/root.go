package scalibr

// Harness for C19 (a config built from capability-filtered plugins validates), injected by overlay.

import (
	"context"

	"github.com/google/osv-scalibr/detector"
	"github.com/google/osv-scalibr/extractor"
	"github.com/google/osv-scalibr/extractor/filesystem"
	"github.com/google/osv-scalibr/extractor/standalone"
	scalibrfs "github.com/google/osv-scalibr/fs"
	"github.com/google/osv-scalibr/internal/verifrt"
	"github.com/google/osv-scalibr/inventory"
	"github.com/google/osv-scalibr/packageindex"
	"github.com/google/osv-scalibr/plugin"
	"github.com/google/osv-scalibr/purl"
)

type verifBase struct {
	name string
	req  *plugin.Capabilities
}

func (p verifBase) Name() string                       { return p.name }
func (p verifBase) Version() int                       { return 1 }
func (p verifBase) Requirements() *plugin.Capabilities { return p.req }

type verifFSEx struct{ verifBase }

func (verifFSEx) FileRequired(filesystem.FileAPI) bool { return false }
func (verifFSEx) Extract(context.Context, *filesystem.ScanInput) (inventory.Inventory, error) {
	return inventory.Inventory{}, nil
}
func (verifFSEx) ToPURL(*extractor.Package) *purl.PackageURL { return nil }
func (verifFSEx) Ecosystem(*extractor.Package) string        { return "" }

type verifSAEx struct{ verifBase }

func (verifSAEx) Extract(context.Context, *standalone.ScanInput) (inventory.Inventory, error) {
	return inventory.Inventory{}, nil
}
func (verifSAEx) ToPURL(*extractor.Package) *purl.PackageURL { return nil }
func (verifSAEx) Ecosystem(*extractor.Package) string        { return "" }

type verifDet struct{ verifBase }

func (verifDet) RequiredExtractors() []string { return nil }
func (verifDet) Scan(context.Context, *scalibrfs.ScanRoot, *packageindex.PackageIndex) ([]*detector.Finding, error) {
	return nil, nil
}

// VerifConfigValidates: a ScanConfig validates iff every enabled plugin's requirements are
// satisfied by the capabilities. One plugin (in the slot chosen) has an arbitrary requirement
// tuple; the other two are either requirement-free or (other=1) one of them needs the network
// while the environment is offline.
func VerifConfigValidates() {
	caps := plugin.VerifCaps("cap_", 3)
	req := plugin.VerifCaps("req_", 4)
	free := func() *plugin.Capabilities { return &plugin.Capabilities{} }
	slot := verifrt.Choice("slot", 3)
	other := verifrt.Choice("other", 2)
	reqs := []*plugin.Capabilities{free(), free(), free()}
	reqs[slot] = req
	otherOK := true
	if other == 1 {
		k := (slot + 1) % 3
		reqs[k] = &plugin.Capabilities{Network: plugin.NetworkOnline}
		otherOK = caps.Network == plugin.NetworkOnline
	}
	cfg := &ScanConfig{
		Capabilities:         caps,
		FilesystemExtractors: []filesystem.Extractor{verifFSEx{verifBase{"fs", reqs[0]}}},
		StandaloneExtractors: []standalone.Extractor{verifSAEx{verifBase{"sa", reqs[1]}}},
		Detectors:            []detector.Detector{verifDet{verifBase{"det", reqs[2]}}},
	}
	err := cfg.ValidatePluginRequirements()
	all := verifrt.And(plugin.VerifSatisfies(req, caps), otherOK)
	if err == nil {
		verifrt.Reach("valid")
	} else {
		verifrt.Reach("invalid")
	}
	verifrt.Assert(verifrt.Iff(err == nil, all), "config validates iff every enabled plugin's requirements are satisfied")
}
