package plugin

// Harness for C19 (capability clauses), injected by overlay.

import (
	"github.com/google/osv-scalibr/internal/verifrt"
)

type verifPlugin struct {
	name string
	req  *Capabilities
}

func (p verifPlugin) Name() string                { return p.name }
func (p verifPlugin) Version() int                { return 1 }
func (p verifPlugin) Requirements() *Capabilities { return p.req }

// VerifCaps returns an arbitrary capability tuple; OS ranges over [0,maxOS].
func VerifCaps(prefix string, maxOS int) *Capabilities {
	return &Capabilities{
		OS:            OS(verifrt.IntRange(prefix+"os", 0, maxOS)),
		Network:       Network(verifrt.IntRange(prefix+"net", 0, 2)),
		DirectFS:      verifrt.Bool(prefix + "directfs"),
		RunningSystem: verifrt.Bool(prefix + "running"),
	}
}

// VerifSatisfies is the independent statement of "the environment satisfies the requirements".
func VerifSatisfies(req, caps *Capabilities) bool {
	unixOK := verifrt.And(req.OS == OSUnix, verifrt.Or(caps.OS == OSLinux, caps.OS == OSMac))
	sameOK := verifrt.And(req.OS != OSUnix, req.OS == caps.OS)
	osOK := verifrt.Or(req.OS == OSAny, verifrt.Or(unixOK, sameOK))
	netOK := verifrt.Or(req.Network == NetworkAny, req.Network == caps.Network)
	fsOK := verifrt.Or(verifrt.Not(req.DirectFS), caps.DirectFS)
	rsOK := verifrt.Or(verifrt.Not(req.RunningSystem), caps.RunningSystem)
	return verifrt.And(verifrt.And(osOK, netOK), verifrt.And(fsOK, rsOK))
}

// VerifValidate: ValidateRequirements accepts exactly the satisfied requirement tuples.
func VerifValidate() {
	req := VerifCaps("req_", 4)
	caps := VerifCaps("cap_", verifrt.Param("max_cap_os"))
	want := VerifSatisfies(req, caps)
	err := ValidateRequirements(verifPlugin{"p", req}, caps)
	if err == nil {
		verifrt.Reach("accepted")
	} else {
		verifrt.Reach("rejected")
	}
	verifrt.ObserveBool("accepted", err == nil)
	verifrt.Assert(verifrt.Iff(err == nil, want), "ValidateRequirements == nil iff the capabilities satisfy the requirements")
}

// VerifTwin must be violated.
func VerifTwin() {
	req := VerifCaps("req_", 4)
	caps := VerifCaps("cap_", 3)
	if ValidateRequirements(verifPlugin{"p", req}, caps) == nil {
		verifrt.Fail("twin")
	}
}
