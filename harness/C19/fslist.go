package list

// Harness for C19: filesystem/list.FilterByCapabilities, injected by overlay.

import (
	"context"

	"github.com/google/osv-scalibr/extractor"
	"github.com/google/osv-scalibr/extractor/filesystem"
	"github.com/google/osv-scalibr/internal/verifrt"
	"github.com/google/osv-scalibr/inventory"
	"github.com/google/osv-scalibr/plugin"
	"github.com/google/osv-scalibr/purl"
)

type verifEx struct {
	name string
	req  *plugin.Capabilities
}

func (p verifEx) Name() string                       { return p.name }
func (p verifEx) Version() int                       { return 1 }
func (p verifEx) Requirements() *plugin.Capabilities { return p.req }
func (verifEx) FileRequired(filesystem.FileAPI) bool { return false }
func (verifEx) Extract(context.Context, *filesystem.ScanInput) (inventory.Inventory, error) {
	return inventory.Inventory{}, nil
}
func (verifEx) ToPURL(*extractor.Package) *purl.PackageURL { return nil }
func (verifEx) Ecosystem(*extractor.Package) string        { return "" }

// VerifFilter: filtering keeps exactly the satisfied plugins, in order.
func VerifFilter() {
	caps := plugin.VerifCaps("cap_", 3)
	req := plugin.VerifCaps("req_", 4)
	in := []filesystem.Extractor{
		verifEx{"a", req},
		verifEx{"b", &plugin.Capabilities{}},
		verifEx{"c", &plugin.Capabilities{Network: plugin.NetworkOnline, DirectFS: true}},
	}
	want := []bool{plugin.VerifSatisfies(req, caps), true, verifrt.And(caps.Network == plugin.NetworkOnline, caps.DirectFS)}
	out := FilterByCapabilities(in, caps)
	k := 0
	for i, p := range in {
		kept := k < len(out) && out[k].Name() == p.Name()
		if kept {
			k++
			verifrt.Reach("kept")
		} else {
			verifrt.Reach("dropped")
		}
		verifrt.Assert(verifrt.Iff(kept, want[i]), "plugin kept iff its requirements are satisfied, order preserved")
	}
	verifrt.Assert(k == len(out), "nothing else in the filtered list")
}
