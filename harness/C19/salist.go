package list

// Harness for C19: standalone/list.FilterByCapabilities, injected by overlay.

import (
	"context"

	"github.com/google/osv-scalibr/extractor"
	"github.com/google/osv-scalibr/extractor/standalone"
	"github.com/google/osv-scalibr/internal/verifrt"
	"github.com/google/osv-scalibr/inventory"
	"github.com/google/osv-scalibr/plugin"
	"github.com/google/osv-scalibr/purl"
)

type verifEx struct {
	name string
	req  *plugin.Capabilities
}

func (p verifEx) Name() string                       { return p.name }
func (p verifEx) Version() int                       { return 1 }
func (p verifEx) Requirements() *plugin.Capabilities { return p.req }

func (verifEx) Extract(context.Context, *standalone.ScanInput) (inventory.Inventory, error) {
	return inventory.Inventory{}, nil
}
func (verifEx) ToPURL(*extractor.Package) *purl.PackageURL { return nil }
func (verifEx) Ecosystem(*extractor.Package) string        { return "" }

// VerifFilter: filtering keeps exactly the satisfied plugins, in order.
func VerifFilter() {
	caps := plugin.VerifCaps("cap_", 3)
	req := plugin.VerifCaps("req_", 4)
	in := []standalone.Extractor{
		verifEx{"a", req},
		verifEx{"b", &plugin.Capabilities{}},
		verifEx{"c", &plugin.Capabilities{Network: plugin.NetworkOnline, DirectFS: true}},
	}
	want := []bool{plugin.VerifSatisfies(req, caps), true, verifrt.And(caps.Network == plugin.NetworkOnline, caps.DirectFS)}
	out := FilterByCapabilities(in, caps)
	k := 0
	for i, p := range in {
		kept := k < len(out) && out[k].Name() == p.Name()
		if kept {
			k++
			verifrt.Reach("kept")
		} else {
			verifrt.Reach("dropped")
		}
		verifrt.Assert(verifrt.Iff(kept, want[i]), "plugin kept iff its requirements are satisfied, order preserved")
	}
	verifrt.Assert(k == len(out), "nothing else in the filtered list")
}

// VerifNames: standalone extractor names are unique and every advertised name resolves.
func VerifNames() {
	names := make([]string, 0, len(extractorNames))
	for name := range extractorNames {
		names = append(names, name)
	}
	for i := range names {
		for j := i + 1; j < len(names); j++ {
			if names[j] < names[i] {
				names[i], names[j] = names[j], names[i]
			}
		}
	}
	verifrt.ObserveInt("names", len(names))
	name := names[verifrt.Choice("name", len(names))]
	fns := extractorNames[name]
	verifrt.Assert(len(fns) >= 1, "an advertised name has an initialiser")
	if len(fns) == 0 {
		return
	}
	if _, isPlugin := All[name]; isPlugin {
		verifrt.Reach("plugin-name")
		verifrt.Assert(len(fns) == 1, "plugin names are unique")
		ex, err := ExtractorFromName(name)
		verifrt.Assert(err == nil && ex != nil && ex.Name() == name, "resolving a plugin's own name returns that plugin")
	} else {
		verifrt.Reach("group-name")
		exs, err := ExtractorsFromNames([]string{name})
		verifrt.Assert(err == nil && len(exs) >= 1 && len(exs) <= len(fns), "every advertised group name resolves to its plugins")
	}
}
