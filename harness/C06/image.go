// Package c06 is the harness for C06's image-load clauses (overlay-only package internal/verifh/c06).
package c06

import (
	"archive/tar"
	"os"
	"path"
	"strings"

	"github.com/google/osv-scalibr/artifact/image/layerscanning/image"
	"github.com/google/osv-scalibr/artifact/image/symlink"
	"github.com/google/osv-scalibr/internal/verifrt"
	"github.com/google/osv-scalibr/internal/verifrt/fakeimg"
	"github.com/google/osv-scalibr/internal/verifrt/tarstub"
	"github.com/google/osv-scalibr/internal/verifrt/vos"
)

var verifReplacements = merge(vos.Replacements, tarstub.Replacements)

func merge(ms ...map[string]any) map[string]any {
	out := map[string]any{}
	for _, m := range ms {
		for k, v := range m {
			out[k] = v
		}
	}
	return out
}

var segments = []string{"..", ".", "a", "aa", "b", ""}

func segName(label string, k int) string {
	s := ""
	if verifrt.Choice(label+"-absolute", 2) == 1 {
		s = "/"
	}
	segs := segments
	if verifrt.ParamStr("names") == "segments-small" {
		segs = []string{"..", ".", "a"}
	}
	for i := 0; i < k; i++ {
		if i > 0 {
			s += "/"
		}
		s += segs[verifrt.Choice(label+"-segment", len(segs))]
	}
	return s
}

func byteName(label string, n int) string {
	s := verifrt.String(label, n)
	for i := 0; i < len(s); i++ {
		c := s[i]
		verifrt.Assume(verifrt.Or(verifrt.Or(c == '.', c == '/'), verifrt.Or(c == 'a', c == 'b')))
	}
	return s
}

func entryName(label string, n int) string {
	if strings.HasPrefix(verifrt.ParamStr("names"), "segments") {
		return segName(label, n)
	}
	return byteName(label, n)
}

func within(dir, p string) bool { return p == dir || strings.HasPrefix(p, dir+"/") }

func tree(root string) []string {
	var out []string
	var rec func(rel string)
	rec = func(rel string) {
		ents, err := os.ReadDir(path.Join(root, rel))
		if err != nil {
			return
		}
		for _, e := range ents {
			p := path.Join(rel, e.Name())
			out = append(out, p)
			if e.IsDir() {
				rec(p)
			}
		}
	}
	rec("")
	return out
}

// VerifImageLoad: loading an image touches nothing outside its own temporary extraction
// directory, whatever the entry names and link targets, and CleanUp removes that directory.
func VerifImageLoad() {
	vos.Reset()
	tmp := os.TempDir()
	var before []string
	if !verifrt.Native() {
		before = tree(tmp)
	}
	topBefore := map[string]bool{}
	if verifrt.Native() {
		// left-overs of an earlier replay of an escaping entry would hide a new escape
		for _, n := range []string{"a", "aa", "b"} {
			os.RemoveAll(path.Join(tmp, n))
		}
	}
	if ents, err := os.ReadDir(tmp); err == nil {
		for _, e := range ents {
			topBefore[e.Name()] = true
		}
	}
	n := verifrt.Param("entries")
	var entries []tarstub.Entry
	for i := 0; i < n; i++ {
		name := entryName("name", verifrt.Param("name_len"))
		typ := verifrt.Choice("type", 4)
		if typ != 1 && len(name) > 0 {
			verifrt.Assume(name[len(name)-1] != '/') // archive/tar cannot encode such an entry (native replay)
		}
		switch typ {
		case 0:
			entries = append(entries, tarstub.Entry{Name: name, Typeflag: tar.TypeReg, Mode: 0o644, Content: []byte("x")})
		case 1:
			entries = append(entries, tarstub.Entry{Name: name, Typeflag: tar.TypeDir, Mode: 0o755})
		case 2:
			entries = append(entries, tarstub.Entry{Name: name, Typeflag: tar.TypeSymlink, Mode: 0o777, Linkname: entryName("target", verifrt.Param("target_len"))})
		case 3:
			entries = append(entries, tarstub.Entry{Name: name, Typeflag: tar.TypeLink, Mode: 0o644, Linkname: entryName("target", verifrt.Param("target_len"))})
		}
	}
	img := &fakeimg.Image{Ls: []*fakeimg.Layer{{Index: 0, Entries: entries}}}
	out, err := image.FromV1Image(img, image.DefaultConfig())
	if err != nil {
		verifrt.Reach("load-failed")
		if !verifrt.Native() {
			verifrt.Assert(strings.Join(tree(tmp), "\n") == strings.Join(before, "\n"), "a failed load leaves nothing behind in the temporary directory")
		}
		return
	}
	verifrt.Reach("loaded")
	ext := out.ExtractDir
	verifrt.Assert(within(tmp, ext) && ext != tmp, "the extraction directory is a fresh directory inside the system temporary directory")
	if !verifrt.Native() {
		for _, m := range vos.Cur.Mutations {
			verifrt.Assert(within(ext, m.Real), "every file system mutation of an image load lands in the image's own extraction directory")
		}
	} else {
		// natively: nothing new appears in the temporary directory next to the extraction directory
		// (other processes' temporary files with the names used here are not expected)
		if ents, err := os.ReadDir(tmp); err == nil {
			for _, e := range ents {
				if !topBefore[e.Name()] && path.Join(tmp, e.Name()) != ext {
					switch e.Name() {
					case "a", "aa", "b", "layer-0":
						verifrt.Fail("every file system mutation of an image load lands in the image's own extraction directory")
					}
				}
			}
		}
	}
	// no symlink entry that leaves the root is offered by the view
	chain, _ := out.ChainLayers()
	fsys := chain[0].FS()
	for _, e := range entries {
		if e.Typeflag == tar.TypeSymlink || e.Typeflag == tar.TypeLink {
			clean := strings.TrimLeft(path.Clean(e.Name), "/")
			if symlink.TargetOutsideRoot("/"+clean, e.Linkname) {
				ents, _ := fsys.ReadDir(path.Dir(clean))
				for _, d := range ents {
					verifrt.Assert(d.Name() != path.Base(clean) || d.Type()&os.ModeSymlink == 0, "a symlink whose target leaves the image root is not offered by the view")
				}
			}
		}
	}
	verifrt.Assert(out.CleanUp() == nil, "clean-up succeeds")
	_, err = os.Stat(ext)
	verifrt.Assert(err != nil, "after clean-up the image's temporary directory is gone")
	if !verifrt.Native() {
		verifrt.Assert(strings.Join(tree(tmp), "\n") == strings.Join(before, "\n"), "after clean-up the system temporary directory is as before")
	}
}

// refOutside is the lexical statement of "the target of a symlink at linkPath leaves the root".
func refOutside(linkPath, target string) bool {
	var stack []string
	walk := func(p string) bool {
		for _, seg := range strings.Split(p, "/") {
			switch seg {
			case "", ".":
			case "..":
				if len(stack) == 0 {
					return true
				}
				stack = stack[:len(stack)-1]
			default:
				stack = append(stack, seg)
			}
		}
		return false
	}
	if !strings.HasPrefix(target, "/") {
		// relative to the directory holding the link
		dir := path.Dir(path.Clean("/" + linkPath))
		if walk(dir) {
			return true
		}
	}
	return walk(target)
}

// VerifTargetOutsideRoot: symlink.TargetOutsideRoot agrees with a lexical reference resolver.
func VerifTargetOutsideRoot() {
	link := entryName("link", verifrt.Param("name_len"))
	target := entryName("target", verifrt.Param("target_len"))
	verifrt.Assume(len(link) > 0 && len(target) > 0)
	// link paths handed to the function are cleaned, rooted entry names
	link = "/" + strings.TrimLeft(path.Clean(link), "/")
	verifrt.Assume(!strings.HasPrefix(link, "/.."))
	got := symlink.TargetOutsideRoot(link, target)
	want := refOutside(link, target)
	verifrt.Reach("compared")
	verifrt.ObserveBool("outside", got)
	if want {
		verifrt.Assert(got, "a target that leaves the image root is reported as outside")
	} else {
		verifrt.Assert(!got, "a target that stays inside the image root is not reported as outside")
	}
}

// VerifByteLimit (C10): an image load never exposes a layer file at or above the per-file byte
// limit in any view and never writes more than that many bytes of it to disk.
func VerifByteLimit() {
	vos.Reset()
	size := int64(verifrt.IntRange("size", 0, 64))
	limit := int64(verifrt.IntRange("maxFileBytes", 1, 64))
	img := &fakeimg.Image{Ls: []*fakeimg.Layer{{Index: 0, Entries: []tarstub.Entry{
		{Name: "big", Typeflag: tar.TypeReg, Mode: 0o644, Size: size},
		{Name: "small", Typeflag: tar.TypeReg, Mode: 0o644, Size: 0},
	}}}}
	cfg := image.DefaultConfig()
	cfg.MaxFileBytes = limit
	out, err := image.FromV1Image(img, cfg)
	verifrt.Assert(err == nil, "an over-limit file does not fail the load")
	if err != nil {
		return
	}
	chain, _ := out.ChainLayers()
	_, statErr := chain[0].FS().Stat("big")
	visible := statErr == nil
	verifrt.ObserveBool("visible", visible)
	if visible {
		verifrt.Reach("visible")
		verifrt.Assert(size < limit, "a file at or above the per-file byte limit is not exposed in any view")
	} else {
		verifrt.Reach("hidden")
		verifrt.Assert(size >= limit, "a file below the per-file byte limit is exposed")
	}
	st, err := os.Stat(path.Join(out.ExtractDir, "layer-0", "big"))
	if err == nil {
		verifrt.Assert(st.Size() <= limit, "no more than the per-file byte limit is written to disk")
	}
	_, err = chain[0].FS().Stat("small")
	verifrt.Assert(err == nil, "other files of the layer are unaffected")
	out.CleanUp()
}

// VerifTwin must be violated.
func VerifTwin() {
	if symlink.TargetOutsideRoot("/a", byteName("t", 2)) {
		verifrt.Fail("twin")
	}
}
