package unpack

// Harness for C06 (unpack containment), injected by overlay.

import (
	"archive/tar"
	"os"
	"path"
	"strings"

	"github.com/google/osv-scalibr/artifact/image/require"
	"github.com/google/osv-scalibr/internal/verifrt"
	"github.com/google/osv-scalibr/internal/verifrt/tarstub"
	"github.com/google/osv-scalibr/internal/verifrt/vos"
)

var verifReplacements = verifMerge(vos.Replacements, tarstub.Replacements)

func verifMerge(ms ...map[string]any) map[string]any {
	out := map[string]any{}
	for _, m := range ms {
		for k, v := range m {
			out[k] = v
		}
	}
	return out
}

// verifName returns a string of n bytes over the alphabet {'.', '/', 'a', 'b'}.
func verifName(label string, n int) string {
	s := verifrt.String(label, n)
	for i := 0; i < len(s); i++ {
		c := s[i]
		verifrt.Assume(verifrt.Or(verifrt.Or(c == '.', c == '/'), verifrt.Or(c == 'a', c == 'b')))
	}
	return s
}

var verifSegments = []string{"..", ".", "a", "aa", "b", ""}

// verifSegName builds a name of k segments, each chosen from {"..", ".", "a", "aa", "b", ""},
// optionally absolute (so ../, ./, empty segments, absolute names and siblings sharing the target
// directory's name prefix all occur at lengths the byte-symbolic runs cannot reach).
func verifSegName(label string, k int) string {
	s := ""
	if verifrt.Choice(label+"-absolute", 2) == 1 {
		s = "/"
	}
	for i := 0; i < k; i++ {
		if i > 0 {
			s += "/"
		}
		s += verifSegments[verifrt.Choice(label+"-segment", len(verifSegments))]
	}
	return s
}

func verifEntryName(label string, n int) string {
	if verifrt.ParamStr("names") == "segments" {
		return verifSegName(label, n)
	}
	return verifName(label, n)
}

// verifSandbox creates <tmp>/verif-sandbox-N/p/q/r/a and returns the sandbox root and the target
// directory a. The nesting keeps a native replay of an escaping entry inside the sandbox.
func verifSandbox() (root, dir string) {
	root, err := os.MkdirTemp("", "verif-sandbox-*")
	if err != nil {
		panic(err)
	}
	dir = path.Join(root, "p/q/r/a")
	if err := os.MkdirAll(dir, 0o755); err != nil {
		panic(err)
	}
	return root, dir
}

// verifTree lists every path below root (relative to root), with symlinks as "path -> target".
func verifTree(root string) []string {
	var out []string
	var rec func(rel string)
	rec = func(rel string) {
		ents, err := os.ReadDir(path.Join(root, rel))
		if err != nil {
			return
		}
		for _, e := range ents {
			p := path.Join(rel, e.Name())
			if e.Type()&os.ModeSymlink != 0 {
				t, _ := os.Readlink(path.Join(root, p))
				out = append(out, p+" -> "+t)
				continue
			}
			out = append(out, p)
			if e.IsDir() {
				rec(p)
			}
		}
	}
	rec("")
	return out
}

func verifWithin(dir, p string) bool { return p == dir || strings.HasPrefix(p, dir+"/") }

// verifCheckContained asserts that nothing exists in the sandbox outside the target directory
// and that no symlink left inside the target resolves outside it.
func verifCheckContained(root, dir string) {
	relDir := strings.TrimPrefix(dir, root+"/")
	for _, item := range verifTree(root) {
		p, target, isLink := strings.Cut(item, " -> ")
		abs := path.Join(root, p)
		// the chain of directories leading to the target directory pre-exists
		if verifWithin(abs, dir) && !isLink {
			continue
		}
		verifrt.Assert(verifWithin(dir, abs), "nothing is created outside the directory designated for unpacking")
		if isLink {
			t := target
			if !path.IsAbs(t) {
				t = path.Join(path.Dir(abs), t)
			}
			verifrt.Assert(verifWithin(dir, path.Clean(t)), "no symlink left inside the target resolves to a location outside it")
		}
	}
	_ = relDir
	if !verifrt.Native() {
		// the virtual OS also records every mutation, wherever it lands
		for _, m := range vos.Cur.Mutations {
			if verifWithin(m.Real, dir) || m.Real == root { // creation of the sandbox chain itself
				continue
			}
			verifrt.Assert(verifWithin(dir, m.Real), "no file system mutation lands outside the directory designated for unpacking")
		}
	}
}

// VerifUnpack: one or two entries with arbitrary names and link targets.
func VerifUnpack() {
	vos.Reset()
	root, dir := verifSandbox()
	defer os.RemoveAll(root)
	n := verifrt.Param("entries")
	var entries []tarstub.Entry
	for i := 0; i < n; i++ {
		name := verifEntryName("name", verifrt.Param("name_len"))
		typ := verifrt.Choice("type", 4)
		if typ != 1 && len(name) > 0 {
			// archive/tar cannot encode a non-directory entry whose name ends in a slash (the native
			// replay serialises the entries with it), so such names are outside the bound
			verifrt.Assume(name[len(name)-1] != '/')
		}
		switch typ {
		case 0:
			entries = append(entries, tarstub.Entry{Name: name, Typeflag: tar.TypeReg, Mode: 0o644, Content: []byte("x")})
		case 1:
			entries = append(entries, tarstub.Entry{Name: name, Typeflag: tar.TypeDir, Mode: 0o755})
		case 2:
			entries = append(entries, tarstub.Entry{Name: name, Typeflag: tar.TypeSymlink, Mode: 0o777, Linkname: verifEntryName("target", verifrt.Param("target_len"))})
		case 3:
			entries = append(entries, tarstub.Entry{Name: name, Typeflag: tar.TypeLink, Mode: 0o644, Linkname: verifEntryName("target", verifrt.Param("target_len"))})
		}
	}
	res := []SymlinkResolution{SymlinkRetain, SymlinkIgnore}[verifrt.Choice("symlink-resolution", 2)]
	_, err := unpack(dir, tarstub.NewStream(entries), res, SymlinkErrLog, &require.FileRequirerAll{}, map[string]bool{}, true, 1<<20)
	_ = err
	verifrt.Reach("unpacked")
	verifCheckContained(root, dir)
}

var verifChainSegments = []string{"..", "t", "v", "."}

// VerifUnpackChain: symlink-then-write-through sequences of three entries. A symlink t, then a
// symlink or hard link x whose target walks through t (lexically inside the target directory,
// physically possibly not), then a regular file with the same name as the link or below it.
func VerifUnpackChain() {
	vos.Reset()
	root, dir := verifSandbox()
	defer os.RemoveAll(root)
	names := []string{"x", "d/x"}
	t1 := []string{".", ".."}[verifrt.Choice("t-target", 2)]
	linkName := names[verifrt.Choice("link-name", len(names))]
	linkType := byte(tar.TypeSymlink)
	if verifrt.Choice("hard-link", 2) == 1 {
		linkType = tar.TypeLink
	}
	target := ""
	for i := 0; i < 3; i++ {
		if i > 0 {
			target += "/"
		}
		target += verifChainSegments[verifrt.Choice("target-segment", len(verifChainSegments))]
	}
	// the regular file has the link's name, or sits below it
	fileNames := []string{"x", "d/x", "x/f", "d/x/f"}
	fileName := fileNames[verifrt.Choice("file-name", len(fileNames))]
	if verifrt.Choice("dot-slash", 2) == 1 {
		fileName = "./" + fileName
	}
	entries := []tarstub.Entry{
		{Name: "t", Typeflag: tar.TypeSymlink, Mode: 0o777, Linkname: t1},
		{Name: linkName, Typeflag: linkType, Mode: 0o644, Linkname: target},
		{Name: fileName, Typeflag: tar.TypeReg, Mode: 0o644, Content: []byte("x")},
	}
	_, err := unpack(dir, tarstub.NewStream(entries), SymlinkRetain, SymlinkErrLog, &require.FileRequirerAll{}, map[string]bool{}, true, 1<<20)
	_ = err
	verifrt.Reach("unpacked")
	verifCheckContained(root, dir)
}

// VerifTwin must be violated.
func VerifTwin() {
	vos.Reset()
	root, dir := verifSandbox()
	defer os.RemoveAll(root)
	name := verifName("name", 2)
	unpack(dir, tarstub.NewStream([]tarstub.Entry{{Name: name, Typeflag: tar.TypeReg, Mode: 0o644, Content: []byte("x")}}),
		SymlinkRetain, SymlinkErrLog, &require.FileRequirerAll{}, map[string]bool{}, true, 1<<20)
	if len(verifTree(dir)) > 0 {
		verifrt.Fail("twin")
	}
}
