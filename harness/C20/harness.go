// Package c20 is the harness for C20 (overlay-only package internal/verifh/c20).
package c20

import (
	"context"
	"errors"
	"strings"

	scalibr "github.com/google/osv-scalibr"
	"github.com/google/osv-scalibr/detector"
	"github.com/google/osv-scalibr/extractor"
	"github.com/google/osv-scalibr/extractor/filesystem"
	"github.com/google/osv-scalibr/extractor/standalone"
	scalibrfs "github.com/google/osv-scalibr/fs"
	"github.com/google/osv-scalibr/internal/verifrt"
	"github.com/google/osv-scalibr/internal/verifrt/fake"
	"github.com/google/osv-scalibr/internal/verifrt/symfs"
	"github.com/google/osv-scalibr/inventory"
	"github.com/google/osv-scalibr/packageindex"
	"github.com/google/osv-scalibr/plugin"
	"github.com/google/osv-scalibr/purl"
)

// purlExtractor reports one package per file; whether a package has a PURL is per package.
type purlExtractor struct {
	hasPURL map[string]bool
	typ     map[string]string
}

func (e *purlExtractor) Name() string                       { return "px" }
func (e *purlExtractor) Version() int                       { return 1 }
func (e *purlExtractor) Requirements() *plugin.Capabilities { return &plugin.Capabilities{} }
func (e *purlExtractor) FileRequired(api filesystem.FileAPI) bool {
	return strings.HasSuffix(api.Path(), ".pkg")
}
func (e *purlExtractor) Extract(_ context.Context, in *filesystem.ScanInput) (inventory.Inventory, error) {
	return inventory.Inventory{Packages: []*extractor.Package{{Name: in.Path, Version: "1", Locations: []string{in.Path}}}}, nil
}
func (e *purlExtractor) ToPURL(p *extractor.Package) *purl.PackageURL {
	if !e.hasPURL[p.Name] {
		return nil
	}
	// the PURL's name differs from the package's own name, as for ecosystems that normalise names
	return &purl.PackageURL{Type: e.typ[p.Name], Name: "purl-" + p.Name, Version: p.Version}
}
func (e *purlExtractor) Ecosystem(*extractor.Package) string { return "" }

var errDet = errors.New("detector failed")

type findingSpec struct {
	kind  int  // 0 no advisory, 1 advisory without ID, 2 ID "A", 3 ID "B"
	title byte // symbolic
	sev   bool // severity pointer present
	stale bool // arrives with a non-empty Detectors field
}

func (s findingSpec) build(extra string) *detector.Finding {
	// every finding names its own target location; a finding may arrive with a stale Detectors
	// field (e.g. replayed from an earlier result), which the core library overwrites
	f := &detector.Finding{Extra: extra, Target: &detector.TargetDetails{Location: []string{"loc-" + extra}}}
	if s.stale {
		f.Detectors = []string{"stale-detector"}
	}
	if s.kind == 0 {
		return f
	}
	f.Adv = &detector.Advisory{Type: detector.TypeVulnerability, Title: string([]byte{s.title})}
	if s.sev {
		f.Adv.Sev = &detector.Severity{Severity: detector.SeverityHigh}
	}
	if s.kind >= 2 {
		f.Adv.ID = &detector.AdvisoryID{Publisher: "CVE", Reference: []string{"A", "B"}[s.kind-2]}
	}
	return f
}

// VerifDetectors: index contents, findings intact and tagged, statuses, consistency failure.
func VerifDetectors() {
	nDet := verifrt.Param("detectors")
	nFind := verifrt.Param("findings")
	symbolicPkgs := verifrt.Param("symbolic_packages") == 1
	files := []string{"a.pkg", "b.pkg", "c.pkg"}
	root := symfs.Dir(".")
	ex := &purlExtractor{hasPURL: map[string]bool{}, typ: map[string]string{}}
	nWithPURL := 0
	for i, f := range files {
		root.Children = append(root.Children, symfs.File(f, "x"))
		if symbolicPkgs {
			ex.hasPURL[f] = verifrt.Choice("hasPURL", 2) == 1
			ex.typ[f] = []string{purl.TypeGeneric, purl.TypeNPM}[verifrt.Choice("purlType", 2)]
		} else {
			ex.hasPURL[f] = i != 1
			ex.typ[f] = []string{purl.TypeGeneric, purl.TypeNPM}[i%2]
		}
		if ex.hasPURL[f] {
			nWithPURL++
		}
	}
	// 0: distinct free texts; 1: all findings of a detector share their free text (they differ in
	// their target only); 2: each detector's first finding arrives with a stale Detectors field
	variant := verifrt.Choice("finding-variant", 3)
	sameExtra := variant == 1
	var specs [][]findingSpec
	var dets []*fake.Detector
	var detErr []bool
	indexOK := true
	for d := 0; d < nDet; d++ {
		var fs []findingSpec
		n := verifrt.Choice("nfindings", nFind+1)
		for k := 0; k < n; k++ {
			fs = append(fs, findingSpec{kind: verifrt.Choice("kind", 4), title: verifrt.Byte("title"), sev: verifrt.Choice("sev", 2) == 1, stale: variant == 2 && k == 0})
		}
		specs = append(specs, fs)
		fails := verifrt.Choice("detector-error", 2) == 1
		detErr = append(detErr, fails)
		name := string(rune('q' - d)) // detectors run in the reverse of their names' order, so sorting has work to do
		fs2 := fs
		det := &fake.Detector{DetName: name}
		det.OnScan = func(_ context.Context, _ *scalibrfs.ScanRoot, px *packageindex.PackageIndex) ([]*detector.Finding, error) {
			// the index holds exactly the extracted packages that have a PURL
			if len(px.GetAll()) != nWithPURL {
				indexOK = false
			}
			for _, f := range files {
				got := px.GetSpecific("purl-"+f, ex.typ[f])
				if ex.hasPURL[f] != (len(got) == 1 && got[0].Name == f) {
					indexOK = false
				}
				other := purl.TypeGeneric
				if ex.typ[f] == purl.TypeGeneric {
					other = purl.TypeNPM
				}
				if len(px.GetSpecific("purl-"+f, other)) != 0 || len(px.GetSpecific(f, ex.typ[f])) != 0 {
					indexOK = false
				}
			}
			if got := px.GetSpecific("standalone-pkg", purl.TypeGeneric); len(got) != 1 {
				indexOK = false
			}
			var out []*detector.Finding
			for k, s := range fs2 {
				f := s.build(name + string(rune('0'+k)))
				if sameExtra {
					// same free text for all findings of the detector: they differ in their target only
					f.Extra = name
				}
				out = append(out, f)
			}
			if fails {
				return out, errDet
			}
			return out, nil
		}
		dets = append(dets, det)
	}
	// a standalone extractor contributes one more package (with a PURL) to the same scan
	sa := &fake.Standalone{ExName: "sa"}
	sa.OnExtract = func(context.Context, *standalone.ScanInput) (inventory.Inventory, error) {
		return inventory.Inventory{Packages: []*extractor.Package{{Name: "standalone-pkg", Version: "1", Locations: []string{"proc"}}}}, nil
	}
	nWithPURL++
	cfg := &scalibr.ScanConfig{
		FilesystemExtractors: []filesystem.Extractor{ex},
		StandaloneExtractors: []standalone.Extractor{sa},
		Capabilities:         &plugin.Capabilities{},
		ScanRoots:            []*scalibrfs.ScanRoot{{FS: &symfs.FS{Root: root}}},
	}
	for _, d := range dets {
		cfg.Detectors = append(cfg.Detectors, d)
	}
	res := scalibr.New().Scan(context.Background(), cfg)

	for _, d := range dets {
		verifrt.Assert(d.Scans == 1, "each enabled detector runs exactly once")
	}
	verifrt.Assert(indexOK, "detectors see an index holding exactly the extracted packages that have a PURL, queryable by type and name")

	// consistency of the returned advisories (independent statement)
	consistent := true
	var all []findingSpec
	total := 0
	for _, fs := range specs {
		for _, s := range fs {
			total++
			if s.kind < 2 {
				consistent = false
			}
			all = append(all, s)
		}
	}
	sameBody := true
	for i := range all {
		for j := i + 1; j < len(all); j++ {
			if all[i].kind >= 2 && all[i].kind == all[j].kind {
				eq := verifrt.And(all[i].title == all[j].title, all[i].sev == all[j].sev)
				sameBody = verifrt.And(sameBody, eq)
			}
		}
	}
	failed := res.Status.Status == plugin.ScanStatusFailed
	if !consistent {
		verifrt.Reach("missing-advisory")
		verifrt.Assert(failed, "a finding without advisory or advisory ID makes the scan report failure")
		verifrt.Assert(len(res.Inventory.Findings) == 0, "no findings are emitted when advisories are inconsistent")
		return
	}
	verifrt.Assert(verifrt.Iff(failed, verifrt.Not(sameBody)), "scan fails iff two findings share an advisory ID with different advisory content")
	if failed {
		verifrt.Reach("conflicting-advisories")
		verifrt.Assert(len(res.Inventory.Findings) == 0, "no findings are emitted when advisories are inconsistent")
		return
	}
	verifrt.Reach("consistent")
	verifrt.Assert(len(res.Inventory.Findings) == total, "every returned finding appears in the result")
	// documented order: by advisory reference, then by the free-text field
	for i := 0; i+1 < len(res.Inventory.Findings); i++ {
		a, b := res.Inventory.Findings[i], res.Inventory.Findings[i+1]
		verifrt.Assert(a.Adv.ID.Reference < b.Adv.ID.Reference || (a.Adv.ID.Reference == b.Adv.ID.Reference && a.Extra <= b.Extra), "findings are emitted sorted by advisory reference, then extra")
	}
	for d, fs := range specs {
		name := dets[d].DetName
		for k := range fs {
			loc := "loc-" + name + string(rune('0'+k))
			n := 0
			for _, f := range res.Inventory.Findings {
				if f.Target != nil && len(f.Target.Location) == 1 && f.Target.Location[0] == loc {
					n++
					verifrt.Assert(len(f.Detectors) == 1 && f.Detectors[0] == name, "finding is tagged with its detector's name")
				}
			}
			verifrt.Assert(n == 1, "finding appears exactly once")
		}
	}
	// statuses: one per detector, failed iff it returned an error
	for d := range dets {
		n := 0
		for _, st := range res.PluginStatus {
			if st.Name == dets[d].DetName {
				n++
				verifrt.Assert((st.Status.Status == plugin.ScanStatusFailed) == detErr[d], "detector status is failed iff the detector returned an error")
			}
		}
		verifrt.Assert(n == 1, "one status entry per detector")
	}
}

// VerifTwin must be violated.
func VerifTwin() {
	det := &fake.Detector{DetName: "p"}
	det.OnScan = func(context.Context, *scalibrfs.ScanRoot, *packageindex.PackageIndex) ([]*detector.Finding, error) {
		return []*detector.Finding{findingSpec{kind: 2, title: verifrt.Byte("t")}.build("x")}, nil
	}
	res := scalibr.New().Scan(context.Background(), &scalibr.ScanConfig{
		Detectors:    []detector.Detector{det},
		Capabilities: &plugin.Capabilities{},
		ScanRoots:    []*scalibrfs.ScanRoot{{FS: &symfs.FS{Root: symfs.Dir(".")}}},
	})
	if len(res.Inventory.Findings) == 1 {
		verifrt.Fail("twin")
	}
}
