package purl

// Harness for C14 (PURL type table and print/parse round trip), injected by overlay.

import (
	"github.com/google/osv-scalibr/internal/verifrt"
)

var verifAllTypes = []string{
	TypeAlpm, TypeApk, TypeBitbucket, TypeBrew, TypeCocoapods, TypeCargo, TypeComposer, TypeConan, TypeConda, TypeCOS,
	TypeCran, TypeDebian, TypeDocker, TypeFlatpak, TypeGem, TypeGeneric, TypeGithub, TypeGolang, TypeHackage, TypeHaskell,
	TypeHex, TypeKernelModule, TypeKernelVmlinuz, TypeMacApps, TypeMaven, TypeNix, TypeNPM, TypeNuget, TypeOCI, TypeOpkg,
	TypePacman, TypePub, TypePortage, TypePyPi, TypeRPM, TypeSnap, TypeSwift, TypeGooget, TypeWordpress,
}

// VerifTypeTable: every PURL type the library defines is accepted by its own parser.
func VerifTypeTable() {
	t := verifAllTypes[verifrt.Choice("type", len(verifAllTypes))]
	p := PackageURL{Type: t, Name: "name", Version: "1.0"}
	if t == TypeSwift {
		p.Namespace = "ns" // the PURL spec requires a namespace for swift
	}
	s := p.String()
	q, err := FromString(s)
	verifrt.Reach("parsed")
	verifrt.Assert(err == nil, "a PURL of a type the library defines is accepted by the library's parser")
	if err == nil {
		verifrt.Assert(q.String() == s, "print(parse(print(p))) == print(p) for a lower-case plain PURL")
		verifrt.Assert(q.Type == t, "type survives the round trip")
	}
}

func verifField(name string, n int) string {
	s := verifrt.String(name, n)
	switch a := verifrt.ParamStr("alphabet"); a {
	case "":
	case "ascii":
		for i := 0; i < len(s); i++ {
			verifrt.Assume(verifrt.And(s[i] >= 0x20, s[i] < 0x7f))
		}
	default:
		// an explicit alphabet
		for i := 0; i < len(s); i++ {
			in := false
			for j := 0; j < len(a); j++ {
				in = verifrt.Or(in, s[i] == a[j])
			}
			verifrt.Assume(in)
		}
	}
	return s
}

// VerifRoundTrip: printing then parsing a PURL with arbitrary bytes in one field is idempotent.
func VerifRoundTrip() {
	types := []string{TypeGeneric, TypeNPM, TypeMaven, TypeDebian, TypeGolang, TypePyPi}
	p := PackageURL{Type: types[verifrt.Choice("type", len(types))], Name: "name", Version: "1.0"}
	n := verifrt.Param("n")
	switch verifrt.ParamStr("field") {
	case "name":
		p.Name = verifField("name", n)
	case "namespace":
		p.Namespace = verifField("namespace", n)
	case "version":
		p.Version = verifField("version", n)
	case "qualifier":
		p.Qualifiers = QualifiersFromMap(map[string]string{"arch": verifField("qualifier", n)})
	}
	// A PURL needs a name (extractors never emit an empty one, see C14's other clause).
	verifrt.Assume(p.Name != "")
	s := p.String()
	q, err := FromString(s)
	if err != nil {
		verifrt.Reach("rejected")
		verifrt.Fail("the printed PURL of a well-formed package is accepted by the parser")
		return
	}
	verifrt.Reach("parsed")
	// normalisation concerns the type, namespace and name only: the version and the qualifier
	// values come back verbatim
	verifrt.Assert(q.Version == p.Version, "parsing the printed PURL recovers the version verbatim")
	if len(p.Qualifiers) == 1 && len(p.Qualifiers[0].Value) > 0 {
		verifrt.Assert(len(q.Qualifiers) == 1 && q.Qualifiers[0].Value == p.Qualifiers[0].Value, "parsing the printed PURL recovers qualifier values verbatim")
	}
	// print∘parse may normalise (case, separators) but must be idempotent
	s1 := q.String()
	q2, err := FromString(s1)
	if err != nil {
		verifrt.Fail("the normalised PURL is accepted by the parser")
		return
	}
	s2 := q2.String()
	verifrt.ObserveStr("normalised", s1)
	verifrt.Assert(s1 == s2, "print∘parse is idempotent")
	verifrt.Assert(q2.Type == q.Type, "type is stable")
}

// VerifTwin must be violated.
func VerifTwin() {
	p := PackageURL{Type: TypeGeneric, Name: verifrt.String("name", 1), Version: "1"}
	if _, err := FromString(p.String()); err == nil {
		verifrt.Fail("twin")
	}
}
