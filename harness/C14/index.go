package packageindex

// Harness for C14 (package index returns what was inserted), injected by overlay.

import (
	"context"

	"github.com/google/osv-scalibr/extractor"
	"github.com/google/osv-scalibr/internal/verifrt"
	"github.com/google/osv-scalibr/plugin"
	"github.com/google/osv-scalibr/purl"
)

type verifEx struct{ has map[*extractor.Package]bool }

func (verifEx) Name() string                       { return "x" }
func (verifEx) Version() int                       { return 1 }
func (verifEx) Requirements() *plugin.Capabilities { return &plugin.Capabilities{} }
func (e verifEx) ToPURL(p *extractor.Package) *purl.PackageURL {
	if !e.has[p] {
		return nil
	}
	return &purl.PackageURL{Type: p.Metadata.(string), Name: verifPURLName(p.Name), Version: p.Version}
}
func (verifEx) Ecosystem(*extractor.Package) string { return "" }

// verifPURLName normalises a package name the way several ecosystems do (lower case), so that the
// PURL's name differs from the package's own name.
func verifPURLName(name string) string {
	b := []byte(name)
	for i := range b {
		b[i] = verifrt.IteByte(verifrt.And(b[i] >= 'A', b[i] <= 'Z'), b[i]+32, b[i])
	}
	return string(b)
}

var _ = context.Background

// VerifIndex: the index returns exactly the inserted packages that have a PURL.
func VerifIndex() {
	n := verifrt.Param("packages")
	ex := verifEx{has: map[*extractor.Package]bool{}}
	var pkgs []*extractor.Package
	types := []string{purl.TypeGeneric, purl.TypeNPM}
	for i := 0; i < n; i++ {
		nb := verifrt.Byte("name")
		verifrt.Assume(verifrt.Or(verifrt.And(nb >= 'a', nb <= 'b'), verifrt.And(nb >= 'A', nb <= 'B')))
		p := &extractor.Package{Name: string([]byte{nb}), Version: "1", Extractor: ex, Metadata: types[verifrt.Choice("type", 2)]}
		ex.has[p] = verifrt.Choice("hasPURL", 2) == 1
		pkgs = append(pkgs, p)
	}
	px, err := New(pkgs)
	verifrt.Assert(err == nil, "index construction succeeds")
	withPURL := 0
	for _, p := range pkgs {
		if ex.has[p] {
			withPURL++
		}
	}
	verifrt.Assert(len(px.GetAll()) == withPURL, "GetAll returns every package that has a PURL, once")
	for _, p := range pkgs {
		got := px.GetSpecific(verifPURLName(p.Name), p.Metadata.(string))
		found := 0
		for _, g := range got {
			if g == p {
				found++
			}
			// everything returned has the queried name and type
			verifrt.Assert(verifrt.And(verifrt.StrEq(verifPURLName(g.Name), verifPURLName(p.Name)), g.Metadata.(string) == p.Metadata.(string)), "GetSpecific returns only packages of that PURL name and type")
		}
		verifrt.Assert(found == verifrt.B2I(ex.has[p]), "a package with a PURL is returned when queried by its PURL type and name, exactly once")
		ofType := 0
		for _, g := range px.GetAllOfType(p.Metadata.(string)) {
			if g == p {
				ofType++
			}
		}
		verifrt.Assert(ofType == verifrt.B2I(ex.has[p]), "GetAllOfType contains the package iff it has a PURL")
	}
	verifrt.Reach("queried")
}
