// Package c14sbom is the harness for C14's clause "the SBOM records preserve name, version,
// locations and package URL verbatim" (overlay-only package internal/verifh/c14sbom): the real
// converter.ToCDX / ToSPDX23 on an inventory whose names and versions carry symbolic bytes and
// whose packages have one or two locations; the in-memory records are compared with the packages.
package c14sbom

import (
	"context"

	scalibr "github.com/google/osv-scalibr"
	"github.com/google/osv-scalibr/converter"
	"github.com/google/osv-scalibr/extractor"
	"github.com/google/osv-scalibr/extractor/filesystem"
	"github.com/google/osv-scalibr/internal/verifrt"
	"github.com/google/osv-scalibr/inventory"
	"github.com/google/osv-scalibr/plugin"
	"github.com/google/osv-scalibr/purl"
)

type srcExtractor struct{}

func (srcExtractor) Name() string                         { return "src" }
func (srcExtractor) Version() int                         { return 1 }
func (srcExtractor) Requirements() *plugin.Capabilities   { return &plugin.Capabilities{} }
func (srcExtractor) FileRequired(filesystem.FileAPI) bool { return false }
func (srcExtractor) Extract(context.Context, *filesystem.ScanInput) (inventory.Inventory, error) {
	return inventory.Inventory{}, nil
}
func (srcExtractor) ToPURL(p *extractor.Package) *purl.PackageURL {
	return &purl.PackageURL{Type: purl.TypeGeneric, Name: p.Name, Version: p.Version}
}
func (srcExtractor) Ecosystem(*extractor.Package) string { return "" }

func packages(n int) []*extractor.Package {
	var pkgs []*extractor.Package
	for i := 0; i < n; i++ {
		// the first package's name and version carry an arbitrary printable byte (characters that
		// need escaping included); the others are plain, so that the conversions' paths do not multiply
		nb, vb := byte('a'+i), byte('0'+i)
		if i == 0 {
			nb, vb = verifrt.Byte("name"), verifrt.Byte("version")
			verifrt.Assume(verifrt.And(nb >= 0x21, nb <= 0x7e))
			verifrt.Assume(verifrt.And(vb >= 0x21, vb <= 0x7e))
		}
		p := &extractor.Package{Name: "n" + string([]byte{nb}), Version: "1." + string([]byte{vb}), Extractor: srcExtractor{}}
		p.Locations = []string{"dir" + string(rune('0'+i)) + "/file"}
		if verifrt.Choice("second-location", 2) == 1 {
			p.Locations = append(p.Locations, "other"+string(rune('0'+i)))
		}
		pkgs = append(pkgs, p)
	}
	return pkgs
}

// VerifCDXRecords: one CycloneDX component per package, carrying its name, version, package URL
// and every location, in order.
func VerifCDXRecords() {
	pkgs := packages(verifrt.Param("packages"))
	bom := converter.ToCDX(&scalibr.ScanResult{Inventory: inventory.Inventory{Packages: pkgs}}, converter.CDXConfig{})
	verifrt.Assert(bom != nil && bom.Components != nil && len(*bom.Components) == len(pkgs), "one SBOM record per package")
	if bom == nil || bom.Components == nil || len(*bom.Components) != len(pkgs) {
		return
	}
	verifrt.Reach("converted")
	for i, p := range pkgs {
		c := (*bom.Components)[i]
		verifrt.Assert(verifrt.And(verifrt.StrEq(c.Name, p.Name), verifrt.StrEq(c.Version, p.Version)), "the SBOM record preserves name and version verbatim")
		verifrt.Assert(verifrt.StrEq(c.PackageURL, p.Extractor.ToPURL(p).String()), "the SBOM record carries the package URL verbatim")
		n := 0
		if c.Evidence != nil && c.Evidence.Occurrences != nil {
			n = len(*c.Evidence.Occurrences)
		}
		verifrt.Assert(n == len(p.Locations), "the SBOM record preserves every location")
		if n == len(p.Locations) {
			for k, l := range p.Locations {
				verifrt.Assert((*c.Evidence.Occurrences)[k].Location == l, "the SBOM record preserves every location")
			}
		}
	}
}

// VerifSPDXRecords: one SPDX package per inventory package (after the document's main package),
// named and versioned like the package URL, carrying that URL as external reference.
func VerifSPDXRecords() {
	pkgs := packages(verifrt.Param("packages"))
	doc := converter.ToSPDX23(&scalibr.ScanResult{Inventory: inventory.Inventory{Packages: pkgs}}, converter.SPDXConfig{})
	verifrt.Assert(doc != nil && len(doc.Packages) == len(pkgs)+1, "one SBOM record per package")
	if doc == nil || len(doc.Packages) != len(pkgs)+1 {
		return
	}
	verifrt.Reach("converted")
	for i, p := range pkgs {
		sp := doc.Packages[i+1]
		u := p.Extractor.ToPURL(p)
		verifrt.Assert(verifrt.And(verifrt.StrEq(sp.PackageName, u.Name), verifrt.StrEq(sp.PackageVersion, u.Version)), "the SBOM record preserves name and version verbatim")
		ok := len(sp.PackageExternalReferences) == 1
		verifrt.Assert(ok, "the SBOM record carries the package URL verbatim")
		if ok {
			verifrt.Assert(verifrt.StrEq(sp.PackageExternalReferences[0].Locator, u.String()), "the SBOM record carries the package URL verbatim")
		}
	}
}

// VerifTwin must be violated.
func VerifTwin() {
	pkgs := packages(1)
	bom := converter.ToCDX(&scalibr.ScanResult{Inventory: inventory.Inventory{Packages: pkgs}}, converter.CDXConfig{})
	if bom != nil {
		verifrt.Fail("twin")
	}
}
