// Package c08 is the harness for C08 (overlay-only package internal/verifh/c08).
package c08

import (
	"context"
	"fmt"
	"strings"

	scalibr "github.com/google/osv-scalibr"
	"github.com/google/osv-scalibr/extractor"
	"github.com/google/osv-scalibr/extractor/filesystem"
	scalibrfs "github.com/google/osv-scalibr/fs"
	"github.com/google/osv-scalibr/internal/verifrt"
	"github.com/google/osv-scalibr/internal/verifrt/fake"
	"github.com/google/osv-scalibr/internal/verifrt/symfs"
	"github.com/google/osv-scalibr/inventory"
	"github.com/google/osv-scalibr/plugin"
)

// pkgSpec is what a file yields when extracted.
type pkgSpec struct {
	name, version string
	// further locations, reported before the file's own path and not in sorted order (extractors
	// that follow includes report several locations for one package)
	moreLocs []string
}

// content maps a file path to the packages the extractors report for it.
type content map[string][]pkgSpec

func extractorFor(name string, c content) *fake.Extractor {
	e := fake.NewExtractor(name, func(p string) bool { return strings.HasSuffix(p, ".pkg") })
	e.OnExtract = func(_ context.Context, in *filesystem.ScanInput) (inventory.Inventory, error) {
		var inv inventory.Inventory
		for _, s := range c[in.Path] {
			locs := append(append([]string{}, s.moreLocs...), in.Path)
			inv.Packages = append(inv.Packages, &extractor.Package{Name: s.name, Version: s.version, Locations: locs})
		}
		return inv, nil
	}
	return e
}

// permute reorders children according to explorer choices (every permutation is explored).
func permute(n *symfs.Node, label string) {
	for i := 0; i < len(n.Children)-1; i++ {
		j := i + verifrt.Choice(label, len(n.Children)-i)
		n.Children[i], n.Children[j] = n.Children[j], n.Children[i]
	}
	for _, c := range n.Children {
		if c.Mode.IsDir() {
			permute(c, label)
		}
	}
}

func tree() *symfs.Node {
	return symfs.Dir(".",
		symfs.File("a.pkg", "x"),
		symfs.Dir("d", symfs.File("b.pkg", "x"), symfs.File("c.pkg", "x")),
		symfs.File("z.pkg", "x"))
}

type row struct {
	name, version, ex, locs string
}

func rows(r *scalibr.ScanResult) []row {
	var out []row
	for _, p := range r.Inventory.Packages {
		out = append(out, row{p.Name, p.Version, p.Extractor.Name(), fmt.Sprintf("%v", p.Locations)})
	}
	return out
}

// lessEq is the documented sort key (name, version, extractor, locations), written independently.
func lessEq(a, b row) bool {
	lt := func(x, y string) bool { return x < y }
	eq := func(x, y string) bool { return x == y }
	return verifrt.Or(lt(a.name, b.name), verifrt.And(eq(a.name, b.name),
		verifrt.Or(lt(a.version, b.version), verifrt.And(eq(a.version, b.version),
			verifrt.Or(lt(a.ex, b.ex), verifrt.And(eq(a.ex, b.ex), a.locs <= b.locs))))))
}

// maxFileSize is the size limit of the scans started by scan (0 = none).
var maxFileSize int

func scan(roots []*symfs.Node, exs []filesystem.Extractor) *scalibr.ScanResult {
	cfg := &scalibr.ScanConfig{FilesystemExtractors: exs, Capabilities: &plugin.Capabilities{}, MaxFileSize: maxFileSize}
	for _, r := range roots {
		cfg.ScanRoots = append(cfg.ScanRoots, &scalibrfs.ScanRoot{FS: &symfs.FS{Root: r}})
	}
	return scalibr.New().Scan(context.Background(), cfg)
}

func assertSorted(r *scalibr.ScanResult) {
	rs := rows(r)
	for i := 0; i+1 < len(rs); i++ {
		verifrt.Assert(lessEq(rs[i], rs[i+1]), "packages are emitted sorted by (name, version, extractor, locations)")
	}
	for _, p := range r.Inventory.Packages {
		for i := 0; i+1 < len(p.Locations); i++ {
			verifrt.Assert(p.Locations[i] <= p.Locations[i+1], "the locations of a package are emitted sorted")
		}
	}
	for i := 0; i+1 < len(r.PluginStatus); i++ {
		verifrt.Assert(r.PluginStatus[i].Name <= r.PluginStatus[i+1].Name, "plugin statuses are emitted sorted by name")
	}
}

func sameRows(a, b []row) bool {
	if len(a) != len(b) {
		return false
	}
	ok := true
	for i := range a {
		ok = verifrt.And(ok, verifrt.And(verifrt.And(a[i].name == b[i].name, a[i].version == b[i].version),
			verifrt.And(a[i].ex == b[i].ex, a[i].locs == b[i].locs)))
	}
	return ok
}

// VerifOrder: the result does not depend on the directory listing order or on map iteration
// order, and is sorted. Package names/versions carry symbolic bytes so that ties on some keys occur.
func VerifOrder() {
	// one package's name and version extend another's by one arbitrary printable byte, so that
	// prefix relations and every relative order of the extra byte to separators occur
	nb := verifrt.Byte("name")
	vb := verifrt.Byte("version")
	verifrt.Assume(verifrt.And(nb >= 0x20, nb < 0x7f))
	verifrt.Assume(verifrt.And(vb >= 0x20, vb < 0x7f))
	c := content{
		"a.pkg":   {{name: "b", version: "1.0"}},
		"d/b.pkg": {{name: "b" + string([]byte{nb}), version: "1.0" + string([]byte{vb})}},
		"d/c.pkg": {{name: "b", version: "1.0", moreLocs: []string{"zz/inc", "0/inc"}}, {name: "a", version: "9"}},
		"z.pkg":   {{name: "b", version: "1.0" + string([]byte{vb})}, {name: "b0", version: "1.0"}},
	}
	exs := func() []filesystem.Extractor {
		return []filesystem.Extractor{extractorFor("y", c), extractorFor("x", c)}
	}
	base := scan([]*symfs.Node{tree()}, exs())
	verifrt.Assert(base.Status.Status == plugin.ScanStatusSucceeded, "scan succeeds")
	assertSorted(base)

	t := tree()
	permute(t, "perm")
	verifrt.ExploreMapOrder(true)
	other := scan([]*symfs.Node{t}, exs())
	verifrt.ExploreMapOrder(false)
	assertSorted(other)
	verifrt.Reach("compared")
	verifrt.Assert(sameRows(rows(base), rows(other)), "same packages in the same order whatever the listing and map iteration order")
	verifrt.Assert(len(base.PluginStatus) == len(other.PluginStatus), "same number of plugin statuses")
}

// VerifRoots: scanning several roots yields exactly the union of scanning each alone.
func VerifRoots() {
	nroots := 2 + verifrt.Choice("extra-root", 2)
	overlap := verifrt.Choice("overlap", 2) == 1
	// with a size limit, a file is judged by its own root's size (per-file state must not leak
	// from one root into the next)
	sizeLimit := verifrt.Choice("size-limit", 2) == 1
	if nroots > 1 {
		verifrt.Tag("C08-multi-root")
	}
	var roots []*symfs.Node
	c := content{}
	for i := 0; i < nroots; i++ {
		f := fmt.Sprintf("r%d.pkg", i)
		if overlap {
			f = "same.pkg" // the same relative path in every root
		}
		file := symfs.File(f, "x")
		if sizeLimit && verifrt.Choice("oversize", 2) == 1 {
			file.Size = 10 // above the limit of 5: this root's file is skipped, whatever the other roots hold
		}
		roots = append(roots, symfs.Dir(".", file))
		c[f] = []pkgSpec{{name: fmt.Sprintf("pkg-%s", f), version: "1"}}
	}
	maxFileSize = 0
	if sizeLimit {
		maxFileSize = 5
	}
	mk := func() []filesystem.Extractor { return []filesystem.Extractor{extractorFor("x", c)} }
	want := 0
	for _, r := range roots {
		one := scan([]*symfs.Node{r}, mk())
		want += len(one.Inventory.Packages)
		verifrt.Assert(len(one.PluginStatus) == 1, "single root: one status per plugin")
	}
	all := scan(roots, mk())
	maxFileSize = 0
	verifrt.Reach("multi-root")
	verifrt.ObserveInt("packages", len(all.Inventory.Packages))
	verifrt.Assert(all.Status.Status == plugin.ScanStatusSucceeded, "multi-root scan succeeds")
	verifrt.Assert(len(all.Inventory.Packages) == want, "several roots yield exactly the union of the single-root scans (no package twice)")
	verifrt.Assert(len(all.PluginStatus) == 1, "several roots: still one status per plugin")
}

// VerifTwin must be violated.
func VerifTwin() {
	r := scan([]*symfs.Node{tree()}, []filesystem.Extractor{extractorFor("x", content{"a.pkg": {{name: "p", version: "1"}}})})
	if len(r.Inventory.Packages) == 1 {
		verifrt.Fail("twin")
	}
}
