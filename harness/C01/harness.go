// Package c01 is the harness for C01 (overlay-only package internal/verifh/c01).
package c01

import (
	"context"
	"io/fs"
	"regexp"

	"github.com/gobwas/glob"
	"github.com/google/osv-scalibr/extractor/filesystem"
	scalibrfs "github.com/google/osv-scalibr/fs"
	"github.com/google/osv-scalibr/internal/verifrt"
	"github.com/google/osv-scalibr/internal/verifrt/fake"
	"github.com/google/osv-scalibr/internal/verifrt/symfs"
	"github.com/google/osv-scalibr/inventory"
	"github.com/google/osv-scalibr/stats"
)

// leaf attributes that an entry may make symbolic
type leafSpec struct {
	path string
	node *symfs.Node
	kind int    // 0 regular, 1 symlink, 2 other (possibly symbolic)
	size int64  // possibly symbolic
	req  []bool // per extractor (possibly symbolic)
}

type world struct {
	fsys   *symfs.FS
	leaves []*leafSpec
	dirs   []string // directory paths, excluding the root
	exs    []*fake.Extractor
	gi     map[string]string
}

func kindMode(kind int) fs.FileMode {
	// regular: 0644; symlink: ModeSymlink|0777; other: ModeDevice|0600 — computed without branching
	m := verifrt.IteInt(kind == 0, 0o644, verifrt.IteInt(kind == 1, int(fs.ModeSymlink|0o777), int(fs.ModeDevice|0o600)))
	return fs.FileMode(uint32(m))
}

// newWorld builds the tree  ./{a.pkg, d/{b.pkg, e/{c.pkg, g/{h.pkg}}}, z.pkg}  with nExt extractors.
func newWorld(nExt int) *world { return newWorldGI(nExt, nil) }

// newWorldGI additionally places .gitignore files: gi maps a directory ("." or "d") to the file's content.
func newWorldGI(nExt int, gi map[string]string) *world {
	w := &world{gi: gi}
	mk := func(path, name string) *symfs.Node {
		n := &symfs.Node{Name: name, Mode: 0o644, Size: 1, Data: []byte("x")}
		l := &leafSpec{path: path, node: n, kind: 0, size: 1}
		for i := 0; i < nExt; i++ {
			l.req = append(l.req, true)
		}
		w.leaves = append(w.leaves, l)
		return n
	}
	a := mk("a.pkg", "a.pkg")
	b := mk("d/b.pkg", "b.pkg")
	c := mk("d/e/c.pkg", "c.pkg")
	h := mk("d/e/g/h.pkg", "h.pkg")
	z := mk("z.pkg", "z.pkg")
	eNode := symfs.Dir("e", c, symfs.Dir("g", h))
	if g, ok := gi["d/e"]; ok {
		eNode.Children = append(eNode.Children, symfs.File(".gitignore", g))
	}
	dNode := symfs.Dir("d", b, eNode)
	root := symfs.Dir(".", a, dNode, z)
	if g, ok := gi["."]; ok {
		root.Children = append([]*symfs.Node{symfs.File(".gitignore", g)}, root.Children...)
	}
	if g, ok := gi["d"]; ok {
		dNode.Children = append(dNode.Children, symfs.File(".gitignore", g))
	}
	w.fsys = &symfs.FS{Root: root}
	w.dirs = []string{"d", "d/e", "d/e/g"}
	for i := 0; i < nExt; i++ {
		i := i
		name := string(rune('x' + i))
		w.exs = append(w.exs, fake.NewExtractor(name, func(path string) bool {
			for _, l := range w.leaves {
				if l.path == path {
					return l.req[i]
				}
			}
			return false
		}))
	}
	return w
}

func (w *world) apply() {
	for _, l := range w.leaves {
		l.node.Mode = kindMode(l.kind)
		l.node.Size = l.size
	}
}

type options struct {
	readSymlinks bool
	maxFileSize  int
	skipDirs     map[string]bool // membership of each directory in DirsToSkip (possibly symbolic)
	regex        string          // "" = unset
	globPat      string          // "" = unset
	useGitignore bool
	paths        []string // PathsToExtract
	ignoreSub    bool
}

func (w *world) run(o options) (inventory.Inventory, error) {
	cfg := &filesystem.Config{
		ScanRoots:      []*scalibrfs.ScanRoot{{FS: w.fsys, Path: ""}},
		Stats:          stats.NoopCollector{},
		ReadSymlinks:   o.readSymlinks,
		MaxFileSize:    o.maxFileSize,
		UseGitignore:   o.useGitignore,
		PathsToExtract: o.paths,
		IgnoreSubDirs:  o.ignoreSub,
	}
	for _, e := range w.exs {
		cfg.Extractors = append(cfg.Extractors, e)
	}
	for _, d := range w.dirs {
		if o.skipDirs[d] {
			cfg.DirsToSkip = append(cfg.DirsToSkip, d)
		}
	}
	if o.regex != "" {
		cfg.SkipDirRegex = regexp.MustCompile(o.regex)
	}
	if o.globPat != "" {
		cfg.SkipDirGlob = glob.MustCompile(o.globPat)
	}
	inv, _, err := filesystem.Run(context.Background(), cfg)
	return inv, err
}

// dirSkipped is the documented meaning of the skip rules for one directory.
func dirSkipped(o options, dir string) bool {
	s := o.skipDirs[dir]
	if o.regex != "" {
		s = verifrt.Or(s, regexp.MustCompile(o.regex).MatchString(dir))
	}
	if o.globPat != "" {
		s = verifrt.Or(s, glob.MustCompile(o.globPat).Match(dir))
	}
	return s
}

// underSkipped: some ancestor directory of the leaf is skipped.
func underSkipped(o options, leafPath string) bool {
	s := false
	for i := 0; i < len(leafPath); i++ {
		if leafPath[i] == '/' {
			s = verifrt.Or(s, dirSkipped(o, leafPath[:i]))
		}
	}
	return s
}

// giMatch: does one .gitignore line (of the forms generated here) match an entry name?
func giMatch(line, name string, isDir bool) bool {
	switch {
	case line == "":
		return false
	case line[len(line)-1] == '/':
		return isDir && name == line[:len(line)-1]
	case line[0] == '*':
		suf := line[1:]
		return len(name) >= len(suf) && name[len(name)-len(suf):] == suf
	default:
		return name == line
	}
}

// gitignored: git's semantics for the pattern forms generated (plain name, "name/", "*.ext"):
// an entry is ignored when a .gitignore in one of its ancestor directories (the scan root
// included) has a line matching the entry itself or a directory between that .gitignore and it.
func (w *world) gitignored(o options, leafPath string) bool {
	if !o.useGitignore {
		return false
	}
	segs := splitPath(leafPath)
	for dir, content := range w.gi {
		base := 0 // number of leading segments that make up dir
		if dir != "." {
			ds := splitPath(dir)
			if len(ds) >= len(segs) {
				continue
			}
			same := true
			for i := range ds {
				if ds[i] != segs[i] {
					same = false
				}
			}
			if !same {
				continue
			}
			base = len(ds)
		}
		// within one file the last matching line decides; a line starting with '!' re-includes
		ignored := false
		for _, line := range splitLines(content) {
			neg := len(line) > 0 && line[0] == '!'
			if neg {
				line = line[1:]
			}
			for i := base; i < len(segs); i++ {
				if giMatch(line, segs[i], i < len(segs)-1) {
					ignored = !neg
				}
			}
		}
		if ignored {
			return true
		}
	}
	return false
}

// gitignoredDir: is the directory itself (or one of its ancestors) ignored in a whole-tree scan?
func (w *world) gitignoredDir(o options, dir string) bool {
	return w.gitignored(o, dir+"/x")
}

func splitPath(p string) []string {
	var out []string
	cur := ""
	for i := 0; i < len(p); i++ {
		if p[i] == '/' {
			out = append(out, cur)
			cur = ""
		} else {
			cur += p[i : i+1]
		}
	}
	return append(out, cur)
}

func splitLines(s string) []string {
	var out []string
	cur := ""
	for i := 0; i < len(s); i++ {
		if s[i] == '\n' {
			out = append(out, cur)
			cur = ""
		} else {
			cur += string(s[i : i+1])
		}
	}
	return append(out, cur)
}

// reaches: does the walk started for requested path p reach the leaf? With the sub-directory
// cut-off, a directory below p is entered only if it was itself requested.
func reaches(o options, p, leafPath string) bool {
	if p == leafPath {
		return true
	}
	rest := leafPath
	if p != "." {
		if !(len(leafPath) > len(p)+1 && leafPath[:len(p)] == p && leafPath[len(p)] == '/') {
			return false
		}
		rest = leafPath[len(p)+1:]
	}
	if !o.ignoreSub {
		return true
	}
	// every directory strictly between p and the leaf must be a requested path
	for i := 0; i < len(rest); i++ {
		if rest[i] == '/' {
			dir := leafPath[:len(leafPath)-len(rest)+i]
			found := false
			for _, q := range o.paths {
				if q == dir {
					found = true
				}
			}
			if !found {
				return false
			}
		}
	}
	return true
}

// requestedCount: number of walks that reach the leaf (1 for a whole-tree scan).
func requestedCount(o options, leafPath string) int {
	if len(o.paths) == 0 {
		return 1
	}
	n := 0
	for _, p := range o.paths {
		if reaches(o, p, leafPath) {
			n++
		}
	}
	return n
}

// check asserts the dispatch clause and the inventory clause.
func (w *world) check(o options, inv inventory.Inventory, err error) {
	verifrt.Assert(err == nil, "scan of a fault-free tree without limits returns no error")
	total := 0
	for _, l := range w.leaves {
		eligible := verifrt.Or(l.kind == 0, verifrt.And(l.kind == 1, o.readSymlinks))
		tooBig := verifrt.And(o.maxFileSize > 0, l.size > int64(o.maxFileSize))
		base := verifrt.And(eligible, verifrt.Not(underSkipped(o, l.path)))
		reach := requestedCount(o, l.path)
		base = verifrt.And(base, reach > 0 && !w.gitignored(o, l.path))
		// the size limit applies to a file as soon as one extractor requires it
		for i, e := range w.exs {
			want := verifrt.And(base, verifrt.And(l.req[i], verifrt.Not(tooBig)))
			n := e.Extracts[l.path]
			verifrt.Assert(n == verifrt.IteInt(want, max(reach, 1), 0), "extractor invoked exactly once (per requested path that reaches it) on a required, non-excluded file and never otherwise")
			total += n
		}
	}
	verifrt.ObserveInt("extract-calls", total)
	verifrt.Assert(len(inv.Packages) == total, "inventory holds exactly what the invocations returned")
	for _, p := range inv.Packages {
		ok := false
		for _, e := range w.exs {
			if p.Extractor == filesystem.Extractor(e) && len(p.Name) > 2 && p.Name[:2] == e.ExName+":" {
				ok = true
			}
		}
		verifrt.Assert(ok, "each package is attributed to the extractor that produced it")
	}
	if total > 0 {
		verifrt.Reach("some-extraction")
	}
}

// VerifKinds: file kinds x symlink reading x per-extractor required bits on two adjacent files.
func VerifKinds() {
	w := newWorld(2)
	o := options{readSymlinks: verifrt.Bool("readSymlinks")}
	for _, l := range w.leaves[:2] {
		l.kind = verifrt.IntRange("kind", 0, 2)
		for i := range l.req {
			l.req[i] = verifrt.Bool("req")
		}
	}
	w.apply()
	inv, err := w.run(o)
	w.check(o, inv, err)
}

// VerifSizes: symbolic sizes and size limit, required bits on two files.
func VerifSizes() {
	w := newWorld(2)
	o := options{maxFileSize: verifrt.IntRange("maxFileSize", 0, 1<<40)}
	for _, l := range w.leaves[1:3] {
		l.size = int64(verifrt.IntRange("size", 0, 1<<40))
		for i := range l.req {
			l.req[i] = verifrt.Bool("req")
		}
	}
	w.apply()
	inv, err := w.run(o)
	w.check(o, inv, err)
}

var regexChoices = []string{"", "^d$", "e$", "^nomatch$"}
var globChoices = []string{"", "d", "d/*", "nomatch"}

// VerifSkipRules: skip list membership x regex x glob, alone and together.
func VerifSkipRules() {
	w := newWorld(1)
	o := options{skipDirs: map[string]bool{}}
	for _, d := range w.dirs {
		o.skipDirs[d] = verifrt.Bool("skip")
	}
	o.regex = regexChoices[verifrt.Choice("regex", len(regexChoices))]
	o.globPat = globChoices[verifrt.Choice("glob", len(globChoices))]
	if o.regex != "" && o.globPat != "" {
		verifrt.Tag("C01-regex-and-glob-both-set")
	}
	for _, l := range w.leaves {
		l.req[0] = verifrt.Bool("req")
	}
	w.apply()
	inv, err := w.run(o)
	w.check(o, inv, err)
}

// negations only name the root-level file a.pkg, so that no other .gitignore's patterns interact
// with them (precedence between files is not part of the reference)
var rootGI = []string{"", "a.pkg", "d/", "*.pkg", "e", "b.pkg\nz.pkg", "*.pkg\n!a.pkg", "*.pkg\n!a.pkg\n*.pkg"}
var dGI = []string{"", "b.pkg", "e/", "e", "c.pkg", "*.pkg", "a.pkg"}

// VerifGitignore: .gitignore files at the root and in d, gitignore handling on/off.
func VerifGitignore() {
	gi := map[string]string{}
	r := verifrt.Choice("rootGitignore", len(rootGI))
	d := verifrt.Choice("dGitignore", len(dGI))
	if r > 0 {
		gi["."] = rootGI[r]
	}
	if d > 0 {
		gi["d"] = dGI[d]
	}
	w := newWorldGI(1, gi)
	o := options{useGitignore: verifrt.Choice("useGitignore", 2) == 1}
	for _, l := range w.leaves {
		l.req[0] = verifrt.Bool("req")
	}
	w.apply()
	inv, err := w.run(o)
	if o.useGitignore && (r > 0 || d > 0) {
		verifrt.Reach("gitignore-active")
	}
	w.check(o, inv, err)
}

var pathChoices = [][]string{nil, {"d"}, {"d/e"}, {"a.pkg"}, {"d", "a.pkg"}, {"d/b.pkg"}, {"d/e", "d"}, {"."}, {"d/e/g"}}

// VerifRequested: explicitly requested files and directories, sub-directory cut-off, and
// agreement of a requested sub-directory with the whole-tree scan restricted to it.
func VerifRequested() {
	pc := verifrt.Choice("paths", len(pathChoices))
	d := verifrt.Choice("dGitignore", 3)
	de := verifrt.Choice("deGitignore", 3)
	gi := map[string]string{}
	if d > 0 {
		gi["d"] = []string{"", "c.pkg", "e/"}[d]
	}
	if de > 0 {
		gi["d/e"] = []string{"", "h.pkg", "c.pkg"}[de]
	}
	o := options{paths: pathChoices[pc], useGitignore: d > 0 || de > 0}
	if len(o.paths) > 0 {
		o.ignoreSub = verifrt.Choice("ignoreSubDirs", 2) == 1
	}
	w := newWorldGI(1, gi)
	for _, l := range w.leaves {
		l.req[0] = verifrt.Bool("req")
	}
	w.apply()
	inv, err := w.run(o)
	if len(o.paths) > 0 {
		verifrt.Reach("explicit-paths")
	}
	w.check(o, inv, err)
	// whole-tree scan restricted to the requested sub-directory
	if len(o.paths) == 1 && (o.paths[0] == "d" || o.paths[0] == "d/e" || o.paths[0] == "d/e/g") && !o.ignoreSub {
		w2 := newWorldGI(1, gi)
		for i, l := range w2.leaves {
			l.req[0] = w.leaves[i].req[0]
		}
		w2.apply()
		w2.run(options{useGitignore: o.useGitignore})
		sub := o.paths[0] + "/"
		reachable := !w2.gitignoredDir(options{useGitignore: o.useGitignore}, o.paths[0])
		for _, l := range w2.leaves {
			if reachable && len(l.path) > len(sub) && l.path[:len(sub)] == sub {
				verifrt.Assert(w.exs[0].Extracts[l.path] == w2.exs[0].Extracts[l.path], "requested sub-directory scan equals the whole-tree scan restricted to it")
			}
		}
		verifrt.Reach("compared-with-whole-tree")
	}
}

// VerifRequestedSkip: requested paths and the sub-directory cut-off together with the skip list,
// the skip regex and the skip glob (a requested directory that a skip rule matches stays skipped).
func VerifRequestedSkip() {
	pc := 1 + verifrt.Choice("paths", len(pathChoices)-1)
	o := options{paths: pathChoices[pc], skipDirs: map[string]bool{}}
	o.ignoreSub = verifrt.Choice("ignoreSubDirs", 2) == 1
	w := newWorld(1)
	for _, d := range w.dirs {
		o.skipDirs[d] = verifrt.Bool("skip")
	}
	o.regex = regexChoices[verifrt.Choice("regex", len(regexChoices))]
	o.globPat = globChoices[verifrt.Choice("glob", len(globChoices))]
	// Left out: a skip rule that matches a strict ancestor of a requested path. The walk starts at
	// the requested path and never visits the ancestor, so the rule is not consulted; the property
	// only relates a requested sub-directory to a whole-tree scan "that would reach" it and does
	// not say what such a request should do.
	for _, p := range o.paths {
		for i := 0; i < len(p); i++ {
			if p[i] == '/' {
				verifrt.Assume(verifrt.Not(dirSkipped(o, p[:i])))
			}
		}
	}
	for _, l := range w.leaves {
		l.req[0] = verifrt.Bool("req")
	}
	w.apply()
	inv, err := w.run(o)
	if o.ignoreSub && (o.regex != "" || o.globPat != "") {
		verifrt.Reach("cut-off-with-skip-rule")
	}
	w.check(o, inv, err)
}

// VerifRootsSameName: several scan roots that hold a file at the same relative path; each root's
// file is judged by its own size and kind (per scan root, exactly once).
func VerifRootsSameName() {
	nroots := 2
	maxSize := verifrt.IntRange("maxFileSize", 0, 1<<40)
	var roots []*scalibrfs.ScanRoot
	var sizes []int64
	var kinds []int
	for i := 0; i < nroots; i++ {
		sz := int64(verifrt.IntRange("size", 0, 1<<40))
		kind := verifrt.IntRange("kind", 0, 2)
		n := &symfs.Node{Name: "same.pkg", Mode: kindMode(kind), Size: sz, Data: []byte("x")}
		roots = append(roots, &scalibrfs.ScanRoot{FS: &symfs.FS{Root: symfs.Dir(".", n)}})
		sizes = append(sizes, sz)
		kinds = append(kinds, kind)
	}
	// the extractor looks at the file's own metadata, as several built-in extractors do
	calls := 0
	extractedSizes := []int64{}
	ex := fake.NewExtractor("x", nil)
	ex.Required = func(string) bool { return true }
	ex.OnExtract = func(_ context.Context, in *filesystem.ScanInput) (inventory.Inventory, error) {
		calls++
		extractedSizes = append(extractedSizes, in.Info.Size())
		return inventory.Inventory{}, nil
	}
	_, _, err := filesystem.Run(context.Background(), &filesystem.Config{
		Extractors:  []filesystem.Extractor{ex},
		ScanRoots:   roots,
		Stats:       stats.NoopCollector{},
		MaxFileSize: maxSize,
	})
	verifrt.Assert(err == nil, "scan of fault-free roots returns no error")
	want := 0
	for i := 0; i < nroots; i++ {
		ok := verifrt.And(kinds[i] == 0, verifrt.Not(verifrt.And(maxSize > 0, sizes[i] > int64(maxSize))))
		want += verifrt.B2I(ok)
	}
	verifrt.Assert(calls == want, "per scan root, the file is extracted exactly once iff it is a regular file within the size limit of that root's own file")
	if calls > 0 {
		verifrt.Reach("some-extraction")
	}
}

// VerifTwin must be violated.
func VerifTwin() {
	w := newWorld(1)
	w.leaves[0].kind = verifrt.IntRange("kind", 0, 2)
	w.apply()
	inv, _ := w.run(options{})
	if len(inv.Packages) == 4 {
		verifrt.Fail("twin")
	}
}
