package c03

// Lockfiles whose extractor decodes JSON or TOML. The decoders are reflection-driven and outside
// the symbolic executor's reach; the document is therefore described as a tree
// (map[string]any / []any / strings with symbolic bytes): natively verifrt.EncodeTree marshals it
// to text for the real decoder, under the executor the decoder stub assigns the same tree to the
// extractor's decode target by its struct tags (verifrt.DecodeTree). Everything after decoding is
// the extractor's real code, and the oracle is the record list the tree was built from.

import (
	"bytes"
	"context"
	"encoding/json"

	"github.com/BurntSushi/toml"
	"github.com/google/osv-scalibr/extractor/filesystem"
	"github.com/google/osv-scalibr/extractor/filesystem/language/cpp/conanlock"
	"github.com/google/osv-scalibr/extractor/filesystem/language/dotnet/packageslockjson"
	"github.com/google/osv-scalibr/extractor/filesystem/language/javascript/packagelockjson"
	"github.com/google/osv-scalibr/extractor/filesystem/language/php/composerlock"
	"github.com/google/osv-scalibr/extractor/filesystem/language/python/pdmlock"
	"github.com/google/osv-scalibr/extractor/filesystem/language/python/pipfilelock"
	"github.com/google/osv-scalibr/extractor/filesystem/language/python/poetrylock"
	"github.com/google/osv-scalibr/extractor/filesystem/language/python/uvlock"
	"github.com/google/osv-scalibr/extractor/filesystem/language/r/renvlock"
	"github.com/google/osv-scalibr/extractor/filesystem/language/rust/cargolock"
	"github.com/google/osv-scalibr/extractor/filesystem/language/swift/packageresolved"
	"github.com/google/osv-scalibr/internal/verifrt"
	"github.com/google/osv-scalibr/internal/verifrt/symfs"
)

type lockLayout struct {
	extraKeys bool // unrelated keys beside the ones the extractor reads
	split     int  // how many of the records go to the second section (dev group, second framework, nested level)
}

type lockFormat struct {
	keyed   bool // sections are maps keyed by package name
	mk      func() filesystem.Extractor
	path    string
	codec   string // json | toml
	tree    func(rs []record, l lockLayout) map[string]any
	name    func(b byte) string
	version func(b byte) string
}

func extra(m map[string]any, l lockLayout) map[string]any {
	if l.extraKeys {
		m["x-unrelated"] = "y"
		m["x-list"] = []any{"z"}
	}
	return m
}

func pkgList(rs []record, l lockLayout, mk func(r record) map[string]any) []any {
	out := []any{}
	for _, r := range rs {
		out = append(out, extra(mk(r), l))
	}
	return out
}

var lockFormats = map[string]lockFormat{
	"composerlock": {mk: composerlock.New, path: "composer.lock", codec: "json",
		name: func(b byte) string { return "v/" + string([]byte{b}) + "x" }, version: func(b byte) string { return "1." + string([]byte{b}) },
		tree: func(rs []record, l lockLayout) map[string]any {
			mk := func(r record) map[string]any {
				return map[string]any{"name": r.name, "version": r.version, "dist": map[string]any{"reference": "abc"}}
			}
			k := len(rs) - l.split
			return extra(map[string]any{"packages": pkgList(rs[:k], l, mk), "packages-dev": pkgList(rs[k:], l, mk)}, l)
		}},
	"cargolock": {mk: cargolock.New, path: "Cargo.lock", codec: "toml",
		name: func(b byte) string { return "cr" + string([]byte{b}) }, version: func(b byte) string { return "1.0." + string([]byte{b}) },
		tree: func(rs []record, l lockLayout) map[string]any {
			return extra(map[string]any{"version": 3, "package": pkgList(rs, l, func(r record) map[string]any {
				return map[string]any{"name": r.name, "version": r.version}
			})}, l)
		}},
	"poetrylock": {mk: poetrylock.New, path: "poetry.lock", codec: "toml",
		name: func(b byte) string { return "py" + string([]byte{b}) }, version: func(b byte) string { return "1." + string([]byte{b}) },
		tree: func(rs []record, l lockLayout) map[string]any {
			return extra(map[string]any{"package": pkgList(rs, l, func(r record) map[string]any {
				return map[string]any{"name": r.name, "version": r.version, "optional": false}
			})}, l)
		}},
	"pdmlock": {mk: pdmlock.New, path: "pdm.lock", codec: "toml",
		name: func(b byte) string { return "py" + string([]byte{b}) }, version: func(b byte) string { return "1." + string([]byte{b}) },
		tree: func(rs []record, l lockLayout) map[string]any {
			return extra(map[string]any{"package": pkgList(rs, l, func(r record) map[string]any {
				return map[string]any{"name": r.name, "version": r.version}
			})}, l)
		}},
	"pipfilelock": {keyed: true, mk: pipfilelock.New, path: "Pipfile.lock", codec: "json",
		name: func(b byte) string { return "py" + string([]byte{b}) }, version: func(b byte) string { return "1." + string([]byte{b}) },
		tree: func(rs []record, l lockLayout) map[string]any {
			def, dev := map[string]any{}, map[string]any{}
			for i, r := range rs {
				e := extra(map[string]any{"version": "==" + r.version}, l)
				if i < len(rs)-l.split {
					def[r.name] = e
				} else {
					dev[r.name] = e
				}
			}
			return extra(map[string]any{"default": def, "develop": dev}, l)
		}},
	"packageslockjson": {keyed: true, mk: packageslockjson.NewDefault, path: "packages.lock.json", codec: "json",
		name: func(b byte) string { return "Nu." + string([]byte{b}) }, version: func(b byte) string { return "1.0." + string([]byte{b}) },
		tree: func(rs []record, l lockLayout) map[string]any {
			fw1, fw2 := map[string]any{}, map[string]any{}
			for i, r := range rs {
				e := extra(map[string]any{"type": "Direct", "resolved": r.version}, l)
				if i < len(rs)-l.split {
					fw1[r.name] = e
				} else {
					fw2[r.name] = e
				}
			}
			return extra(map[string]any{"version": 1, "dependencies": map[string]any{"net6.0": fw1, "net8.0": fw2}}, l)
		}},
	"renvlock": {keyed: true, mk: renvlock.New, path: "renv.lock", codec: "json",
		name: func(b byte) string { return "r" + string([]byte{b}) }, version: func(b byte) string { return "1." + string([]byte{b}) },
		tree: func(rs []record, l lockLayout) map[string]any {
			pk := map[string]any{}
			for _, r := range rs {
				pk[r.name] = extra(map[string]any{"Package": r.name, "Version": r.version, "Repository": "CRAN"}, l)
			}
			return extra(map[string]any{"Packages": pk}, l)
		}},
	"conanlock": {mk: conanlock.New, path: "conan.lock", codec: "json",
		name: func(b byte) string { return "cn" + string([]byte{b}) }, version: func(b byte) string { return "1." + string([]byte{b}) },
		tree: func(rs []record, l lockLayout) map[string]any {
			req, build := []any{}, []any{}
			for i, r := range rs {
				ref := r.name + "/" + r.version + "#0123%1.5"
				if i < len(rs)-l.split {
					req = append(req, ref)
				} else {
					build = append(build, ref)
				}
			}
			return extra(map[string]any{"version": "0.5", "requires": req, "build_requires": build}, l)
		}},
	"uvlock": {mk: uvlock.New, path: "uv.lock", codec: "toml",
		name: func(b byte) string { return "py" + string([]byte{b}) }, version: func(b byte) string { return "1." + string([]byte{b}) },
		tree: func(rs []record, l lockLayout) map[string]any {
			// the project itself is listed as a virtual package, which the format marks as not a dependency
			pk := []any{map[string]any{"name": "root", "version": "0.1.0", "source": map[string]any{"virtual": "."}}}
			pk = append(pk, pkgList(rs, l, func(r record) map[string]any {
				return map[string]any{"name": r.name, "version": r.version, "source": map[string]any{"registry": "https://pypi.org/simple"}}
			})...)
			return extra(map[string]any{"version": 1, "package": pk}, l)
		}},
	"packageresolved": {mk: packageresolved.NewDefault, path: "Package.resolved", codec: "json",
		name: func(b byte) string { return "sw" + string([]byte{b}) }, version: func(b byte) string { return "1.0." + string([]byte{b}) },
		tree: func(rs []record, l lockLayout) map[string]any {
			return extra(map[string]any{"version": 2, "pins": pkgList(rs, l, func(r record) map[string]any {
				return map[string]any{"identity": r.name, "kind": "remoteSourceControl", "state": map[string]any{"revision": "abc", "version": r.version}}
			})}, l)
		}},
	// package-lock.json v1: nested dependencies (the second section is nested under the first record,
	// which is a local file: dependency when the layout asks for extra keys)
	"packagelockjson-v1": {keyed: true, mk: packagelockjson.NewDefault, path: "package-lock.json", codec: "json",
		name: func(b byte) string { return "js" + string([]byte{b}) }, version: func(b byte) string { return "1.0." + string([]byte{b}) },
		tree: func(rs []record, l lockLayout) map[string]any {
			deps := map[string]any{}
			k := len(rs) - l.split
			for _, r := range rs[:k] {
				deps[r.name] = extra(map[string]any{"version": r.version}, l)
			}
			if l.split > 0 {
				nested := map[string]any{}
				for _, r := range rs[k:] {
					nested[r.name] = extra(map[string]any{"version": r.version}, l)
				}
				holder := map[string]any{"version": "9.9.9", "dependencies": nested}
				if l.extraKeys {
					holder["version"] = "file:../holder"
				}
				deps["holder"] = holder
			}
			return extra(map[string]any{"lockfileVersion": 1, "dependencies": deps}, l)
		}},
	"packagelockjson-v2": {keyed: true, mk: packagelockjson.NewDefault, path: "package-lock.json", codec: "json",
		name: func(b byte) string { return "js" + string([]byte{b}) }, version: func(b byte) string { return "1.0." + string([]byte{b}) },
		tree: func(rs []record, l lockLayout) map[string]any {
			pk := map[string]any{"": map[string]any{"name": "root", "version": "0.0.0"}}
			for i, r := range rs {
				p := "node_modules/" + r.name
				if i >= len(rs)-l.split {
					p = "node_modules/@scope/host/node_modules/" + r.name
				}
				pk[p] = extra(map[string]any{"version": r.version}, l)
			}
			return extra(map[string]any{"lockfileVersion": 3, "packages": pk}, l)
		}},
}

// decoder stubs (symbolic executor only)
func stubJSONDecode(d *json.Decoder, v any) error {
	verifrt.DecodeTree(v, "doc")
	return nil
}

func stubTOMLDecode(d *toml.Decoder, v any) (toml.MetaData, error) {
	verifrt.DecodeTree(v, "doc")
	return toml.MetaData{}, nil
}

var verifReplacements = map[string]any{
	"(*encoding/json.Decoder).Decode":              stubJSONDecode,
	"(*github.com/BurntSushi/toml.Decoder).Decode": stubTOMLDecode,
}

// VerifLockfile: a well-formed lockfile listing N distinct packages is reported completely and
// exactly, whatever the section a record sits in and whatever unrelated keys surround it.
func VerifLockfile() {
	fname := verifrt.ParamStr("format")
	f, ok := lockFormats[fname]
	if !ok {
		panic("unknown lockfile format " + fname)
	}
	n := verifrt.Param("records")
	l := lockLayout{extraKeys: verifrt.Choice("unrelated-keys", 2) == 1, split: verifrt.Choice("second-section", n+1)}
	// two of the N distinct packages may share the name and differ in the version (two versions of
	// a crate, one id resolved differently for two target frameworks, a nested node_modules copy)
	sameName := n >= 2 && verifrt.Choice("same-name-two-versions", 2) == 1
	if sameName && f.keyed {
		// formats that key a section by package name need the two copies in different sections
		verifrt.Assume(l.split == n-1)
		if fname == "renvlock" {
			verifrt.Assume(false)
		}
	}
	var rs []record
	for i := 0; i < n; i++ {
		nb := verifrt.Byte("name")
		vb := verifrt.Byte("version")
		verifrt.Assume(verifrt.Or(verifrt.And(nb >= 'a', nb <= 'z'), verifrt.And(nb >= '0', nb <= '9')))
		verifrt.Assume(verifrt.And(vb >= '0', vb <= '9'))
		r := record{name: f.name(nb), version: f.version(vb), installed: true}
		for k, o := range rs {
			if sameName && k == 0 && i == 1 {
				verifrt.Assume(verifrt.And(verifrt.StrEq(o.name, r.name), verifrt.Not(verifrt.StrEq(o.version, r.version))))
				continue
			}
			verifrt.Assume(verifrt.Not(verifrt.StrEq(o.name, r.name))) // N distinct packages
		}
		rs = append(rs, r)
	}
	if sameName {
		verifrt.Reach("same-name-two-versions")
	}
	data := verifrt.EncodeTree("doc", f.tree(rs, l), f.codec)
	e := f.mk()
	fsys := &symfs.FS{Root: symfs.Dir(".")}
	inv, err := e.Extract(context.Background(), &filesystem.ScanInput{
		FS: fsys, Path: f.path, Info: info{f.path, int64(len(data))}, Reader: bytes.NewReader(data),
	})
	verifrt.Assert(err == nil, "a well-formed file is extracted without error")
	if err != nil {
		return
	}
	extraPkgs := 0
	if fname == "packagelockjson-v1" && l.split > 0 && !l.extraKeys {
		extraPkgs = 1 // the holder of the nested dependencies is a listed package itself
	}
	if fname == "packagelockjson-v1" && l.split > 0 && l.extraKeys {
		extraPkgs = 1 // a file: dependency is listed too (without a version)
	}
	verifrt.ObserveInt("packages", len(inv.Packages))
	verifrt.Assert(len(inv.Packages) == n+extraPkgs, "exactly the listed (installed) packages are reported: none dropped, duplicated or invented")
	for _, r := range rs {
		count := 0
		for _, p := range inv.Packages {
			count += verifrt.B2I(verifrt.And(verifrt.StrEq(p.Name, r.name), verifrt.StrEq(p.Version, r.version)))
		}
		verifrt.Assert(count == 1, "each listed package is reported exactly once with its exact name and version (omitted only if marked not installed)")
	}
	for _, p := range inv.Packages {
		verifrt.Assert(len(p.Locations) >= 1 && p.Locations[0] == f.path, "each package carries the file as its location")
		verifrt.Assert(p.Name != "", "each package has a non-empty name")
	}
	if n > 0 {
		verifrt.Reach("packages-reported")
	}
}
