// Package c03 is the harness for C03 (overlay-only package internal/verifh/c03).
package c03

import (
	"bytes"
	"context"
	"io/fs"
	"strings"
	"time"

	"github.com/google/osv-scalibr/extractor"
	"github.com/google/osv-scalibr/extractor/filesystem"
	"github.com/google/osv-scalibr/extractor/filesystem/language/golang/gomod"
	"github.com/google/osv-scalibr/extractor/filesystem/language/java/gradlelockfile"
	"github.com/google/osv-scalibr/extractor/filesystem/language/python/requirements"
	"github.com/google/osv-scalibr/extractor/filesystem/language/ruby/gemfilelock"
	"github.com/google/osv-scalibr/extractor/filesystem/os/apk"
	"github.com/google/osv-scalibr/extractor/filesystem/os/dpkg"
	"github.com/google/osv-scalibr/internal/verifrt"
	"github.com/google/osv-scalibr/internal/verifrt/symfs"
)

type record struct {
	name, version string
	installed     bool // false: the format marks the record as not installed (dpkg only)
}

// layout is the set of serialisation choices a format permits.
type layout struct {
	crlf            bool
	trailingNewline bool
	blankBetween    bool // an extra blank line between records
	comment         bool // a comment / unrelated line between records
	extraField      bool // an unrelated field inside each record
	// go.mod only: 1 = the first record is replaced (versioned replace directive), 2 = that
	// directive followed by a versioned one whose module is not required (no effect), 3 = the
	// unused directive first
	replace int
}

func (l layout) nl() string {
	if l.crlf {
		return "\r\n"
	}
	return "\n"
}

type format struct {
	mk     func() filesystem.Extractor
	path   string
	render func(rs []record, l layout) string
	// expected (name, version) as the extractor reports it
	expect func(r record) (string, string)
	// extra packages the format itself implies (e.g. the go directive of go.mod)
	extra int
	// a legal name / version from one symbolic byte
	name    func(b byte) string
	version func(b byte) string
	// the ecosystem's legal alphabet for the symbolic byte of a name (besides a-z and 0-9)
	nameExtra string
}

func ident(r record) (string, string) { return r.name, r.version }

var formats = map[string]format{
	"dpkg": {mk: dpkg.NewDefault, path: "var/lib/dpkg/status", expect: ident, nameExtra: "+.-",
		name: func(b byte) string { return "li" + string([]byte{b}) + "x" }, version: func(b byte) string { return "1." + string([]byte{b}) + "-2" },
		render: func(rs []record, l layout) string {
			nl := l.nl()
			s := ""
			for i, r := range rs {
				if i > 0 {
					s += nl
					if l.blankBetween {
						s += nl
					}
				}
				s += "Package: " + r.name + nl
				if r.installed {
					s += "Status: install ok installed" + nl
				} else {
					s += "Status: deinstall ok config-files" + nl
				}
				if l.extraField {
					s += "Priority: optional" + nl + "Description: x" + nl + " continued" + nl
				}
				s += "Version: " + r.version + nl
			}
			if l.trailingNewline && len(rs) > 0 {
				s += nl
			}
			return s
		}},
	"apk": {mk: apk.NewDefault, path: "lib/apk/db/installed", expect: ident, nameExtra: "+.-_",
		name: func(b byte) string { return "li" + string([]byte{b}) + "x" }, version: func(b byte) string { return "1." + string([]byte{b}) + "-r0" },
		render: func(rs []record, l layout) string {
			nl := l.nl()
			s := ""
			for i, r := range rs {
				if i > 0 && l.blankBetween {
					s += nl
				}
				s += "P:" + r.name + nl
				if l.extraField {
					s += "T:desc: with colon" + nl + "o:origin" + nl
				}
				s += "V:" + r.version + nl
				s += nl // record terminator
			}
			if !l.trailingNewline && len(s) >= len(nl) {
				s = s[:len(s)-len(nl)]
			}
			return s
		}},
	"gradle": {mk: gradlelockfile.New, path: "gradle.lockfile", nameExtra: "._-",
		expect:  func(r record) (string, string) { return "org.x:" + r.name, r.version },
		name:    func(b byte) string { return "li" + string([]byte{b}) + "x" },
		version: func(b byte) string { return "1." + string([]byte{b}) },
		render: func(rs []record, l layout) string {
			nl := l.nl()
			s := "# This is a Gradle generated file for dependency locking." + nl
			for _, r := range rs {
				if l.blankBetween {
					s += nl
				}
				if l.comment {
					s += "# comment" + nl
				}
				s += "org.x:" + r.name + ":" + r.version + "=compileClasspath,runtimeClasspath" + nl
			}
			s += "empty=annotationProcessor"
			if l.trailingNewline {
				s += nl
			}
			return s
		}},
	"requirements": {mk: requirements.NewDefault, path: "requirements.txt", expect: ident, nameExtra: "._-",
		name: func(b byte) string { return "li" + string([]byte{b}) + "x" }, version: func(b byte) string { return "1." + string([]byte{b}) },
		render: func(rs []record, l layout) string {
			nl := l.nl()
			s := ""
			if l.comment {
				s += "# requirements" + nl
			}
			for i, r := range rs {
				if l.blankBetween {
					s += nl
				}
				s += r.name + "==" + r.version
				if l.extraField {
					s += " # pinned"
				}
				if i < len(rs)-1 || l.trailingNewline {
					s += nl
				}
			}
			return s
		}},
	"gemfilelock": {mk: gemfilelock.New, path: "Gemfile.lock", expect: ident, nameExtra: "_-.",
		name: func(b byte) string { return "li" + string([]byte{b}) + "x" }, version: func(b byte) string { return "1." + string([]byte{b}) },
		render: func(rs []record, l layout) string {
			nl := l.nl()
			s := "GEM" + nl + "  remote: https://rubygems.org/" + nl + "  specs:" + nl
			for _, r := range rs {
				s += "    " + r.name + " (" + r.version + ")" + nl
				if l.extraField {
					s += "      dep (~> 1.0)" + nl
				}
			}
			if l.blankBetween {
				s += nl
			}
			s += "PLATFORMS" + nl + "  ruby" + nl + nl + "DEPENDENCIES" + nl
			for _, r := range rs {
				s += "  " + r.name + nl
			}
			s += nl + "BUNDLED WITH" + nl + "   2.4.1"
			if l.trailingNewline {
				s += nl
			}
			return s
		}},
	"gomod": {mk: gomod.New, path: "go.mod", extra: 1, nameExtra: "._-~",
		expect:  func(r record) (string, string) { return r.name, strings.TrimPrefix(r.version, "v") },
		name:    func(b byte) string { return "example.com/li" + string([]byte{b}) + "x" },
		version: func(b byte) string { return "v1." + string([]byte{b}) + ".0" },
		render: func(rs []record, l layout) string {
			nl := l.nl()
			s := "module example.com/m" + nl + nl + "go 1.21" + nl
			if len(rs) > 0 {
				s += nl + "require (" + nl
				for _, r := range rs {
					if l.comment {
						s += "\t// a comment" + nl
					}
					s += "\t" + r.name + " " + r.version
					if l.extraField {
						s += " // indirect"
					}
					s += nl
					if l.blankBetween {
						s += nl
					}
				}
				s += ")"
				used := "replace " + rs[0].name + " " + rs[0].version + " => example.com/fork/x v9.9.9"
				unused := "replace example.com/not/required v1.0.0 => example.com/other/y v7.7.7"
				switch l.replace {
				case 1:
					s += nl + nl + used
				case 2:
					s += nl + nl + used + nl + unused
				case 3:
					s += nl + nl + unused + nl + used
				}
				if l.trailingNewline {
					s += nl
				}
			}
			return s
		}},
}

type info struct {
	name string
	size int64
}

func (i info) Name() string       { return i.name }
func (i info) Size() int64        { return i.size }
func (i info) Mode() fs.FileMode  { return 0o644 }
func (i info) ModTime() time.Time { return time.Time{} }
func (i info) IsDir() bool        { return false }
func (i info) Sys() any           { return nil }

// VerifComplete: a well-formed file listing N distinct packages is reported completely and exactly.
func VerifComplete() {
	f := formats[verifrt.ParamStr("format")]
	n := verifrt.Param("records")
	l := layout{
		crlf:            verifrt.Choice("crlf", 2) == 1,
		trailingNewline: verifrt.Choice("trailing-newline", 2) == 1,
		blankBetween:    verifrt.Choice("blank-lines", 2) == 1,
		comment:         verifrt.Choice("comment", 2) == 1,
		extraField:      verifrt.Choice("extra-field", 2) == 1,
	}
	if l.crlf {
		verifrt.Tag("crlf")
	}
	if verifrt.ParamStr("format") == "gomod" && n > 0 {
		l.replace = verifrt.Choice("replace-directives", 4)
	}
	var rs []record
	notInstalled := -1
	if verifrt.ParamStr("format") == "dpkg" && n > 0 {
		notInstalled = verifrt.Choice("not-installed-record", n+1) - 1 // -1: none
	}
	for i := 0; i < n; i++ {
		nb := verifrt.Byte("name")
		vb := verifrt.Byte("version")
		legal := verifrt.Or(verifrt.And(nb >= 'a', nb <= 'z'), verifrt.And(nb >= '0', nb <= '9'))
		for k := 0; k < len(f.nameExtra); k++ {
			legal = verifrt.Or(legal, nb == f.nameExtra[k])
		}
		verifrt.Assume(legal)
		verifrt.Assume(verifrt.And(vb >= '0', vb <= '9'))
		if verifrt.ParamStr("format") == "requirements" {
			verifrt.TagIf(nb == '.', "C03-requirements-dotted-name")
		}
		r := record{name: f.name(nb), version: f.version(vb), installed: i != notInstalled}
		for _, o := range rs {
			verifrt.Assume(verifrt.Not(verifrt.StrEq(o.name, r.name))) // N distinct packages
		}
		rs = append(rs, r)
	}
	content := f.render(rs, l)
	e := f.mk()
	fsys := &symfs.FS{Root: symfs.Dir(".", symfs.Dir("etc", symfs.File("os-release", "ID=debian\nVERSION_ID=12\n")))}
	inv, err := e.Extract(context.Background(), &filesystem.ScanInput{
		FS: fsys, Path: f.path, Info: info{f.path, int64(len(content))}, Reader: bytes.NewReader([]byte(content)),
	})
	verifrt.Assert(err == nil, "a well-formed file is extracted without error")
	if err != nil {
		return
	}
	want := 0
	for _, r := range rs {
		if r.installed {
			want++
		}
	}
	verifrt.ObserveInt("packages", len(inv.Packages))
	verifrt.Assert(len(inv.Packages) == want+f.extra, "exactly the listed (installed) packages are reported: none dropped, duplicated or invented")
	for i, r := range rs {
		en, ev := f.expect(r)
		if i == 0 && l.replace > 0 {
			en, ev = "example.com/fork/x", "9.9.9" // what the replace directive says
		}
		count := 0
		for _, p := range inv.Packages {
			count += verifrt.B2I(verifrt.And(verifrt.StrEq(p.Name, en), verifrt.StrEq(p.Version, ev)))
		}
		verifrt.Assert(count == verifrt.B2I(r.installed), "each listed package is reported exactly once with its exact name and version (omitted only if marked not installed)")
	}
	for _, p := range inv.Packages {
		verifrt.Assert(len(p.Locations) >= 1 && p.Locations[0] == f.path, "each package carries the file as its location")
		verifrt.Assert(p.Name != "", "each package has a non-empty name")
		p.Extractor = e
		if u := e.ToPURL(p); u != nil {
			verifrt.Assert(u.Type != "" && u.Name != "", "each package converts to a typed, named PURL")
		}
	}
	var _ = extractor.Package{}
	if want > 0 {
		verifrt.Reach("packages-reported")
	}
}

// VerifTwin must be violated.
func VerifTwin() {
	f := formats["apk"]
	b := verifrt.Byte("name")
	verifrt.Assume(verifrt.And(b >= 'a', b <= 'z'))
	content := f.render([]record{{f.name(b), "1.0-r0", true}}, layout{trailingNewline: true})
	inv, err := f.mk().Extract(context.Background(), &filesystem.ScanInput{Path: f.path, Reader: bytes.NewReader([]byte(content)),
		FS: &symfs.FS{Root: symfs.Dir(".")}})
	if err == nil && len(inv.Packages) == 1 {
		verifrt.Fail("twin")
	}
}
