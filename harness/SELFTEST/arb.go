package selftest

// Conformance of the decoder-stub machinery (verifrt.Arbitrary / Document and EncodeTree /
// DecodeTree): the engine builds an arbitrary value lazily, renders it as JSON / TOML / YAML / XML
// text, and the native run decodes that text with the real decoder; everything observed from the
// value must agree on both sides.

import (
	"encoding/json"
	"encoding/xml"
	"sort"
	"strings"

	"github.com/BurntSushi/toml"
	"github.com/google/osv-scalibr/internal/verifrt"
	"gopkg.in/yaml.v3"
)

type arbInner struct {
	Ref  string `json:"ref" toml:"ref" yaml:"ref" xml:"ref,attr"`
	Flag bool   `json:"flag" toml:"flag" yaml:"flag" xml:"flag,attr"`
}

type arbItem struct {
	Name    string            `json:"name" toml:"name" yaml:"name" xml:"name,attr"`
	Version string            `json:"version,omitempty" toml:"version" yaml:"version" xml:"version"`
	Count   int               `json:"count" toml:"count" yaml:"count" xml:"count"`
	Inner   *arbInner         `json:"inner" toml:"inner" yaml:"inner" xml:"inner"`
	Tags    []string          `json:"tags" toml:"tags" yaml:"tags" xml:"tags>tag"`
	Extra   map[string]string `json:"extra" toml:"extra" yaml:"extra" xml:"-"`
	hidden  int
}

type arbDoc struct {
	XMLName xml.Name  `json:"-" toml:"-" yaml:"-" xml:"doc"`
	Title   string    `json:"title" toml:"title" yaml:"title" xml:"title"`
	Items   []arbItem `json:"items" toml:"items" yaml:"items" xml:"items>item"`
	Skipped string    `json:"-" toml:"-" yaml:"-" xml:"-"`
}

// Arbitrary: observations derived from an arbitrary decoded document agree between the engine
// (lazily built value) and the native run (real decoder on the rendered text).
func Arbitrary() {
	format := verifrt.ParamStr("format")
	var doc arbDoc
	data := verifrt.Document("doc")
	if verifrt.Native() {
		var err error
		switch format {
		case "json":
			err = json.Unmarshal(data, &doc)
		case "toml":
			err = toml.Unmarshal(data, &doc)
		case "yaml":
			err = yaml.Unmarshal(data, &doc)
		case "xml":
			err = xml.Unmarshal(data, &doc)
		}
		verifrt.ObserveBool("decoded", err == nil)
	} else {
		verifrt.Arbitrary(&doc, "doc", format)
		verifrt.ObserveBool("decoded", true)
	}
	verifrt.ObserveInt("items", len(doc.Items))
	for _, it := range doc.Items {
		verifrt.ObserveStr("name", it.Name)
		if strings.HasPrefix(it.Version, "v") {
			verifrt.ObserveStr("version", it.Version[1:])
		}
		if it.Count > 3 {
			verifrt.ObserveInt("count", it.Count)
		}
		if it.Inner != nil {
			verifrt.ObserveStr("ref", it.Inner.Ref)
			verifrt.ObserveBool("flag", it.Inner.Flag)
		} else {
			verifrt.ObserveStr("ref", "<nil>")
		}
		verifrt.ObserveInt("tags", len(it.Tags))
		for _, t := range it.Tags {
			verifrt.ObserveStr("tag", t)
		}
		var keys []string
		for k := range it.Extra {
			keys = append(keys, k)
		}
		sort.Strings(keys)
		for _, k := range keys {
			verifrt.ObserveStr("extra", k+"="+it.Extra[k])
		}
		_ = it.hidden
	}
	if doc.Title != "" {
		verifrt.ObserveStr("title", doc.Title)
	}
	verifrt.Reach("observed")
}

// Tree: a harness-built document tree assigned by the engine equals what the real decoder makes
// of the marshalled tree.
func Tree() {
	format := verifrt.ParamStr("format")
	name := "n" + string([]byte{verifrt.Byte("name")&0x0f + 'a'})
	tree := map[string]any{
		"title": "t",
		"items": []any{
			map[string]any{"name": name, "version": "v1", "count": 5, "inner": map[string]any{"ref": "r", "flag": true}, "tags": []any{"x", "y"}, "unknown": 1},
			map[string]any{"name": "second", "Count": 7},
		},
	}
	data := verifrt.EncodeTree("doc", tree, format)
	var doc arbDoc
	if verifrt.Native() {
		var err error
		if format == "json" {
			err = json.Unmarshal(data, &doc)
		} else {
			err = toml.Unmarshal(data, &doc)
		}
		verifrt.ObserveBool("decoded", err == nil)
	} else {
		verifrt.DecodeTree(&doc, "doc")
		verifrt.ObserveBool("decoded", true)
	}
	verifrt.ObserveInt("items", len(doc.Items))
	for _, it := range doc.Items {
		verifrt.ObserveStr("name", it.Name)
		verifrt.ObserveStr("version", it.Version)
		verifrt.ObserveInt("count", it.Count)
		verifrt.ObserveBool("inner", it.Inner != nil)
		verifrt.ObserveInt("tags", len(it.Tags))
	}
	verifrt.Reach("observed")
}
