// Package selftest is the engine's conformance corpus: each entry computes values with real
// standard-library and language features and records them with verifrt.Observe*; the driver's
// differential replay runs the same entry natively on the same inputs and compares every
// observation (overlay-only package internal/verifh/selftest).
package selftest

import (
	"bufio"
	"bytes"
	"errors"
	"fmt"
	"io"
	"io/fs"
	"math/big"
	"path"
	"regexp"
	"sort"
	"strconv"
	"strings"
	"unicode/utf8"

	"github.com/google/osv-scalibr/internal/verifrt"
)

type shape interface{ area() int }
type rect struct{ w, h int }
type sq struct{ s int }

func (r rect) area() int { return r.w * r.h }
func (s *sq) area() int  { return s.s * s.s }

type pair[K comparable, V any] struct {
	k K
	v V
}

func mapSorted[K ~string, V any](m map[K]V) []pair[K, V] {
	var out []pair[K, V]
	for k, v := range m {
		out = append(out, pair[K, V]{k, v})
	}
	sort.Slice(out, func(i, j int) bool { return out[i].k < out[j].k })
	return out
}

var errSentinel = errors.New("sentinel")

type wrapErr struct{ inner error }

func (w *wrapErr) Error() string { return "wrap: " + w.inner.Error() }
func (w *wrapErr) Unwrap() error { return w.inner }

// Concrete exercises the interpreter on concrete values only.
func Concrete() {
	// integer wrap-around, shifts, conversions, division
	var u8 uint8 = 250
	u8 += 10
	verifrt.ObserveInt("u8wrap", int(u8))
	var i32 int32 = 1 << 30
	i32 *= 4
	verifrt.ObserveInt("i32wrap", int(i32))
	var i8 int8 = -128
	verifrt.ObserveInt("i8neg", int(-i8))
	verifrt.ObserveInt("shr", int(int64(-17)>>2))
	verifrt.ObserveInt("ushr", int(uint32(0xF0000000)>>28))
	one, nine := uint8(1), 9
	verifrt.ObserveInt("shl-big", int(one<<nine))
	verifrt.ObserveInt("div", -7/2)
	verifrt.ObserveInt("rem", -7%3)
	u200 := uint8(200)
	verifrt.ObserveInt("conv", int(int8(u200)))
	verifrt.ObserveInt("andnot", 0xFF&^0x0F)
	// strings, slices, maps
	s := "héllo, wörld"
	verifrt.ObserveInt("len", len(s))
	verifrt.ObserveInt("runes", utf8.RuneCountInString(s))
	n := 0
	for i, r := range s {
		n += i * int(r)
	}
	verifrt.ObserveInt("rangesum", n)
	verifrt.ObserveStr("upper", strings.ToUpper(s))
	verifrt.ObserveStr("fields", strings.Join(strings.Fields(" a  b\tc\n"), "|"))
	verifrt.ObserveStr("split", strings.Join(strings.SplitN("a:b:c:d", ":", 3), "|"))
	verifrt.ObserveStr("replace", strings.ReplaceAll("a-b-c", "-", "."))
	verifrt.ObserveStr("trim", strings.TrimLeft("xxabcxx", "x")+"/"+strings.TrimSuffix("abc.go", ".go"))
	verifrt.ObserveBool("hasprefix", strings.HasPrefix("../x", "../"))
	verifrt.ObserveInt("index", strings.Index("hello", "ll")+strings.LastIndex("a/b/c", "/")*10)
	verifrt.ObserveStr("clean", path.Clean("/a/./b/../../c/")+"|"+path.Join("a", "../..", "b")+"|"+path.Dir("/a/b")+"|"+path.Base("a/b/"))
	sl := []int{5, 2, 9, 1}
	sl2 := append(sl[:1:1], 7)
	sort.Ints(sl)
	verifrt.ObserveStr("slices", fmt.Sprint(sl, sl2, cap(sl2) >= 2))
	copy(sl[1:], sl)
	verifrt.ObserveStr("copy", fmt.Sprint(sl))
	m := map[string]int{"b": 2, "a": 1, "c": 3}
	delete(m, "b")
	m["d"] = 4
	verifrt.ObserveStr("map", fmt.Sprint(mapSorted(m), len(m)))
	_, ok := m["zz"]
	verifrt.ObserveBool("mapmiss", ok)
	type key struct {
		a string
		b int
	}
	km := map[key]string{{"x", 1}: "one", {"x", 2}: "two"}
	verifrt.ObserveStr("structkey", km[key{"x", 2}])
	// interfaces, methods, type switches, generics, closures
	shapes := []shape{rect{2, 3}, &sq{4}}
	total := 0
	for _, sh := range shapes {
		switch v := sh.(type) {
		case rect:
			total += v.area() * 100
		case *sq:
			total += v.area()
		}
	}
	verifrt.ObserveInt("shapes", total)
	counter := func() func() int { c := 0; return func() int { c++; return c } }()
	counter()
	verifrt.ObserveInt("closure", counter()+counter())
	// defer / panic / recover
	verifrt.ObserveStr("recover", func() (out string) {
		defer func() {
			if r := recover(); r != nil {
				out = fmt.Sprint("recovered: ", r)
			}
		}()
		var a []int
		_ = a[3]
		return "not reached"
	}())
	verifrt.ObserveStr("defer-order", func() string {
		var sb strings.Builder
		for i := 0; i < 3; i++ {
			defer func(i int) { sb.WriteString(strconv.Itoa(i)) }(i)
		}
		return ""
	}())
	// errors
	e1 := fmt.Errorf("ctx %d: %w", 7, &wrapErr{errSentinel})
	verifrt.ObserveStr("errorf", e1.Error())
	verifrt.ObserveBool("errors.Is", errors.Is(e1, errSentinel))
	var we *wrapErr
	verifrt.ObserveBool("errors.As", errors.As(e1, &we) && we.inner == errSentinel)
	verifrt.ObserveBool("notexist", errors.Is(&fs.PathError{Op: "open", Path: "x", Err: fs.ErrNotExist}, fs.ErrNotExist))
	verifrt.ObserveStr("join", errors.Join(errSentinel, io.EOF).Error())
	// fmt
	verifrt.ObserveStr("sprintf", fmt.Sprintf("%d|%5d|%-5d|%05d|%x|%X|%o|%c|%q|%v|%+v|%t|%s|%8.3s|%%", 42, 42, 42, 42, 255, 255, 8, 'A', "q\"s", []string{"a", "b"}, struct {
		A int
		B string
	}{1, "x"}, true, errSentinel, "abcdef"))
	verifrt.ObserveStr("sprint", fmt.Sprint("a", 1, 2, "b", "c", 3.5)+fmt.Sprintln("x", 1))
	// strconv, big, regexp, bufio
	v, err := strconv.Atoi("-1234")
	verifrt.ObserveStr("atoi", fmt.Sprint(v, err))
	_, err = strconv.Atoi("12a")
	verifrt.ObserveStr("atoi-err", err.Error())
	verifrt.ObserveStr("quote", strconv.Quote("tab\there")+strconv.FormatInt(-255, 16))
	b1, _ := new(big.Int).SetString("123456789012345678901234567890", 10)
	b2 := big.NewInt(987654321)
	verifrt.ObserveStr("big", new(big.Int).Mul(b1, b2).String()+"|"+strconv.Itoa(b1.Cmp(b2)))
	re := regexp.MustCompile(`^(\d+)\.(\d+)(?:-([a-z]+))?$`)
	verifrt.ObserveStr("regexp", fmt.Sprint(re.FindStringSubmatch("12.34-rc"), re.MatchString("1.x"), re.ReplaceAllString("1.2", "$2.$1")))
	sc := bufio.NewScanner(bytes.NewReader([]byte("l1\r\nl2\n\nlast")))
	var lines []string
	for sc.Scan() {
		lines = append(lines, sc.Text())
	}
	verifrt.ObserveStr("scanner", strings.Join(lines, "|"))
	data, _ := io.ReadAll(io.LimitReader(strings.NewReader("0123456789"), 4))
	verifrt.ObserveStr("readall", string(data))
	// goroutines, channels, select
	ch := make(chan int)
	done := make(chan struct{})
	go func() {
		for i := 0; i < 3; i++ {
			ch <- i * i
		}
		close(ch)
	}()
	sum := 0
	go func() {
		for v := range ch {
			sum += v
		}
		close(done)
	}()
	<-done
	verifrt.ObserveInt("chan", sum)
	bc := make(chan string, 2)
	bc <- "x"
	select {
	case v := <-bc:
		verifrt.ObserveStr("select", v)
	default:
		verifrt.ObserveStr("select", "default")
	}
}

// Symbolic exercises the symbolic layer: the observations are evaluated under each path's model
// and compared with the native run on those input values.
func Symbolic() {
	a := verifrt.Byte("a")
	b := verifrt.Byte("b")
	x := verifrt.Int("x")
	verifrt.Assume(verifrt.And(x > -1000, x < 1000))
	verifrt.ObserveInt("add8", int(a+b))
	verifrt.ObserveInt("mul8", int(a*b))
	verifrt.ObserveInt("sub-signed", int(int8(a)-int8(b)))
	verifrt.ObserveInt("shift", int(a)<<(b&3)|int(a>>(b&7)))
	verifrt.ObserveInt("xor", int(a^b)&^0x81)
	verifrt.ObserveInt("wide", int(uint32(a)<<24>>20)+x*3-x/7+x%5)
	verifrt.ObserveBool("cmp", (a < b) != (int8(a) < int8(b)))
	s := string([]byte{a, 'x', b})
	verifrt.ObserveStr("str", s+"|"+strings.ToUpper(s))
	verifrt.ObserveInt("idx", strings.IndexByte(s, 'x')+10*strings.Count(s, "x"))
	verifrt.ObserveBool("contains", strings.Contains(s, "xx"))
	verifrt.ObserveBool("less", s < "mxm")
	verifrt.ObserveInt("runes", utf8.RuneCountInString(s))
	n := 0
	for _, r := range s {
		n = n*7 + int(r)
	}
	verifrt.ObserveInt("range", n)
	tbl := [4]int{10, 20, 30, 40}
	verifrt.ObserveInt("tbl", tbl[a&3])
	m := map[string]int{"ax": 1, "bx": 2}
	verifrt.ObserveInt("mapsym", m[string([]byte{a, 'x'})])
	verifrt.ObserveStr("itoa", strconv.Itoa(int(a)))
	if a == '7' {
		v, err := strconv.Atoi(string([]byte{a, b}))
		verifrt.ObserveBool("atoi-ok", err == nil)
		if err == nil {
			verifrt.ObserveInt("atoi", v)
		}
	}
}
