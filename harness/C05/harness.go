// Package c05 is the harness for C05 (overlay-only package internal/verifh/c05).
package c05

import (
	"archive/tar"
	"context"
	"io"
	"strings"

	v1 "github.com/google/go-containerregistry/pkg/v1"
	scalibr "github.com/google/osv-scalibr"
	"github.com/google/osv-scalibr/artifact/image/layerscanning/image"
	"github.com/google/osv-scalibr/extractor"
	"github.com/google/osv-scalibr/extractor/filesystem"
	"github.com/google/osv-scalibr/internal/verifrt"
	"github.com/google/osv-scalibr/internal/verifrt/fakeimg"
	"github.com/google/osv-scalibr/internal/verifrt/tarstub"
	"github.com/google/osv-scalibr/internal/verifrt/vos"
	"github.com/google/osv-scalibr/inventory"
	"github.com/google/osv-scalibr/plugin"
	"github.com/google/osv-scalibr/purl"
)

var verifReplacements = merge(vos.Replacements, tarstub.Replacements)

func merge(ms ...map[string]any) map[string]any {
	out := map[string]any{}
	for _, m := range ms {
		for k, v := range m {
			out[k] = v
		}
	}
	return out
}

// letterExtractor reports one package per letter of its alphabet found in a *.db file.
type letterExtractor struct {
	name    string
	letters string
}

func (e *letterExtractor) Name() string                       { return e.name }
func (e *letterExtractor) Version() int                       { return 1 }
func (e *letterExtractor) Requirements() *plugin.Capabilities { return &plugin.Capabilities{} }
func (e *letterExtractor) FileRequired(api filesystem.FileAPI) bool {
	return strings.HasSuffix(api.Path(), ".db")
}
func (e *letterExtractor) Extract(_ context.Context, in *filesystem.ScanInput) (inventory.Inventory, error) {
	data, err := io.ReadAll(in.Reader)
	if err != nil {
		return inventory.Inventory{}, err
	}
	// the file is a sequence of <letter><digit> pairs: package name and version
	var inv inventory.Inventory
	s := string(data)
	for i := 0; i+1 < len(s); i += 2 {
		if strings.Contains(e.letters, s[i:i+1]) {
			inv.Packages = append(inv.Packages, &extractor.Package{Name: s[i : i+1], Version: s[i+1 : i+2], Locations: []string{in.Path}})
		}
	}
	return inv, nil
}
func (e *letterExtractor) ToPURL(p *extractor.Package) *purl.PackageURL {
	return &purl.PackageURL{Type: purl.TypeGeneric, Name: p.Name, Version: p.Version}
}
func (e *letterExtractor) Ecosystem(*extractor.Package) string { return "" }

const (
	aNone   = 0 // layer does not touch the file
	aDelete = 1 // layer deletes the file
	aWrite  = 2 // aWrite+bits: layer writes the file with the packages selected by bits
)

var allLetters = "abc"

// contentFor decodes code base 3: for each letter 0 = absent, 1 = version 1, 2 = version 2.
func contentFor(code, nLetters int) string {
	s := ""
	for i := 0; i < nLetters; i++ {
		switch code % 3 {
		case 1:
			s += allLetters[i:i+1] + "1"
		case 2:
			s += allLetters[i:i+1] + "2"
		}
		code /= 3
	}
	return s
}

func pow3(n int) int {
	r := 1
	for i := 0; i < n; i++ {
		r *= 3
	}
	return r
}

// VerifAttribution: every package of the final view is attributed to the layer that introduced it.
func VerifAttribution() {
	vos.Reset()
	nLayers := verifrt.Param("layers")
	twoExtractors := verifrt.Param("extractors") == 2
	nLetters := verifrt.Param("letters")
	files := []string{"f.db"}
	if verifrt.Param("files") == 2 {
		// the same packages may be listed in two files (same name and version, different location)
		files = append(files, "g.db")
	}
	// history: each non-empty layer may be preceded by an empty history entry
	img := &fakeimg.Image{}
	var chainIsEmpty []bool   // per chain layer
	var chainCommand []string // per chain layer
	var chainV1 []int         // per chain layer: index of its v1 layer, -1 for empty layers
	// view[chain layer][file] = content, "" with present=false when absent
	type fileState struct {
		present bool
		content string
	}
	var views []map[string]fileState
	cur := map[string]fileState{}
	snapshot := func() map[string]fileState {
		m := map[string]fileState{}
		for k, v := range cur {
			m[k] = v
		}
		return m
	}
	maxEmpty := verifrt.Param("max_empty")
	addEmpty := func() {
		cmd := "ENV x" + string(rune('0'+len(chainIsEmpty)))
		img.History = append(img.History, v1.History{CreatedBy: cmd, EmptyLayer: true})
		chainIsEmpty = append(chainIsEmpty, true)
		chainCommand = append(chainCommand, cmd)
		chainV1 = append(chainV1, -1)
		views = append(views, snapshot())
	}
	for l := 0; l < nLayers; l++ {
		for k := verifrt.Choice("empty-layers-before", 1+maxEmpty); k > 0; k-- {
			addEmpty()
		}
		entries := []tarstub.Entry{{Name: "other-" + string(rune('0'+l)), Typeflag: tar.TypeReg, Mode: 0o644, Content: []byte("x")}}
		for _, f := range files {
			act := verifrt.Choice("action", 2+pow3(nLetters))
			if l == 0 && act == aDelete {
				verifrt.Assume(false) // nothing to delete in the first layer
			}
			switch {
			case act == aDelete:
				if !cur[f].present {
					verifrt.Assume(false) // whiteouts name existing files
				}
				entries = append(entries, tarstub.Entry{Name: ".wh." + f, Typeflag: tar.TypeReg, Mode: 0o600, Content: []byte{}})
				cur[f] = fileState{}
			case act >= aWrite:
				c := contentFor(act-aWrite, nLetters)
				entries = append(entries, tarstub.Entry{Name: f, Typeflag: tar.TypeReg, Mode: 0o644, Content: []byte(c)})
				cur[f] = fileState{present: true, content: c}
			}
		}
		cmd := "RUN step" + string(rune('0'+l))
		img.Ls = append(img.Ls, &fakeimg.Layer{Index: l, Entries: entries})
		img.History = append(img.History, v1.History{CreatedBy: cmd})
		chainIsEmpty = append(chainIsEmpty, false)
		chainCommand = append(chainCommand, cmd)
		chainV1 = append(chainV1, l)
		views = append(views, snapshot())
	}
	// history-only entries after the last layer (CMD, ENV, ...)
	for k := verifrt.Choice("empty-layers-after", 1+verifrt.Param("trailing_empty")); k > 0; k-- {
		addEmpty()
		verifrt.Reach("trailing-history-only-entry")
	}
	out, err := image.FromV1Image(img, image.DefaultConfig())
	verifrt.Assert(err == nil, "the image loads")
	if err != nil {
		return
	}
	exs := []filesystem.Extractor{&letterExtractor{name: "x", letters: allLetters[:nLetters]}}
	if twoExtractors {
		// two extractors read the same file and report disjoint packages
		exs = []filesystem.Extractor{&letterExtractor{name: "x", letters: "a"}, &letterExtractor{name: "y", letters: allLetters[1:nLetters]}}
		verifrt.Tag("C05-two-extractors-share-a-file")
	}
	res, err := scalibr.New().ScanContainer(context.Background(), out, &scalibr.ScanConfig{
		FilesystemExtractors: exs,
		Capabilities:         &plugin.Capabilities{},
	})
	verifrt.Assert(err == nil && res.Status.Status == plugin.ScanStatusSucceeded, "the container scan succeeds")
	if err != nil {
		return
	}
	last := len(views) - 1
	want := 0
	for _, f := range files {
		if views[last][f].present {
			want += len(views[last][f].content) / 2
		}
	}
	verifrt.Assert(len(res.Inventory.Packages) == want, "the scan reports the packages of the final view")
	for _, p := range res.Inventory.Packages {
		f := p.Locations[0]
		has := func(j int) bool {
			// the same package: same name and version (same package URL) at the same location
			return views[j][f].present && strings.Contains(views[j][f].content, p.Name+p.Version)
		}
		// earliest layer L such that the package is present in every view from L to the last
		L := last
		for L > 0 && has(L-1) {
			L--
		}
		verifrt.Assert(p.LayerDetails != nil, "a package from a file carries layer details")
		if p.LayerDetails == nil {
			continue
		}
		verifrt.ObserveInt("layer-of-"+p.Name+p.Version, p.LayerDetails.Index)
		verifrt.Assert(p.LayerDetails.Index == L, "package attributed to the earliest layer from which it is present in every later view")
		if p.LayerDetails.Index == L {
			verifrt.Assert(p.LayerDetails.Command == chainCommand[L], "layer details carry the build command of that layer")
			wantDiff := ""
			if chainV1[L] >= 0 {
				wantDiff = strings.TrimPrefix(fakeimg.DiffIDString(chainV1[L]), "sha256:")
			}
			verifrt.Assert(p.LayerDetails.DiffID == wantDiff, "layer details carry the diff ID of that layer")
		}
		if L > 0 {
			verifrt.Reach("introduced-after-first-layer")
		}
		if chainIsEmpty[L] {
			verifrt.Fail("a package is never introduced by an empty layer (oracle self-check)")
		}
	}
	if want > 0 {
		verifrt.Reach("packages-found")
	}
	out.CleanUp()
}

// VerifTwin must be violated.
func VerifTwin() {
	vos.Reset()
	img := &fakeimg.Image{Ls: []*fakeimg.Layer{{Index: 0, Entries: []tarstub.Entry{{Name: "f.db", Typeflag: tar.TypeReg, Mode: 0o644, Content: []byte("a1")}}}},
		History: []v1.History{{CreatedBy: "RUN x"}}}
	out, err := image.FromV1Image(img, image.DefaultConfig())
	if err != nil {
		return
	}
	res, err := scalibr.New().ScanContainer(context.Background(), out, &scalibr.ScanConfig{
		FilesystemExtractors: []filesystem.Extractor{&letterExtractor{name: "x", letters: "a"}},
		Capabilities:         &plugin.Capabilities{},
	})
	if err == nil && len(res.Inventory.Packages) == 1 && res.Inventory.Packages[0].LayerDetails != nil {
		verifrt.Fail("twin")
	}
}
