// Package c09 is the harness for C09 (overlay-only package internal/verifh/c09).
package c09

import (
	"context"
	"errors"
	"io"
	"io/fs"
	"strings"

	"github.com/google/osv-scalibr/extractor"
	"github.com/google/osv-scalibr/extractor/filesystem"
	scalibrfs "github.com/google/osv-scalibr/fs"
	"github.com/google/osv-scalibr/internal/verifrt"
	"github.com/google/osv-scalibr/internal/verifrt/fake"
	"github.com/google/osv-scalibr/internal/verifrt/symfs"
	"github.com/google/osv-scalibr/inventory"
	"github.com/google/osv-scalibr/plugin"
	"github.com/google/osv-scalibr/stats"
)

var errGeneric = errors.New("injected I/O error")

var files = []string{"a.pkg", "d/b.pkg", "d/e/c.pkg", "z.pkg"}

func tree() *symfs.FS {
	return &symfs.FS{Root: symfs.Dir(".",
		symfs.File("a.pkg", "aa"),
		symfs.Dir("d", symfs.File("b.pkg", "bb"), symfs.Dir("e", symfs.File("c.pkg", "cc"))),
		symfs.File("z.pkg", "zz"))}
}

// readingExtractor reads the whole file; a read error becomes its error.
func readingExtractor(name string) *fake.Extractor {
	e := fake.NewExtractor(name, func(p string) bool { return strings.HasSuffix(p, ".pkg") })
	e.OnExtract = func(_ context.Context, in *filesystem.ScanInput) (inventory.Inventory, error) {
		if _, err := io.ReadAll(in.Reader); err != nil {
			return inventory.Inventory{}, err
		}
		return inventory.Inventory{Packages: []*extractor.Package{{Name: name + ":" + in.Path, Version: "1", Locations: []string{in.Path}}}}, nil
	}
	return e
}

type fault struct {
	op  symfs.Op
	err error
}

func under(dir, p string) bool {
	return dir == "." || p == dir || strings.HasPrefix(p, dir+"/")
}

// VerifFaults: up to maxFaults operations fail; everything outside the failing
// directory/file behaves as in the fault-free scan, failures are surfaced in the owner's
// status, and the scan as a whole fails iff a traversal failure occurs and the caller asked for it.
func VerifFaults() {
	maxFaults := verifrt.Param("max_faults")
	fatal := verifrt.Choice("errorOnFSErrors", 2) == 1
	sizeLimit := verifrt.Choice("sizeLimit", 2) == 1

	// many built-in extractors look at the lazily stat'ed FileInfo in FileRequired (size limits,
	// executable bits) and decline the file when that Stat fails
	statInRequired := verifrt.Choice("statInRequired", 2) == 1
	nex := 1
	if verifrt.Param("extractors") == 2 {
		nex = 2
	}

	fsys := tree()
	ex := readingExtractor("x")
	exs := []*fake.Extractor{ex}
	if nex == 2 {
		exs = append(exs, readingExtractor("y"))
	}
	if statInRequired {
		for _, e := range exs {
			e.RequiredAPI = func(api filesystem.FileAPI) bool {
				if !strings.HasSuffix(api.Path(), ".pkg") {
					return false
				}
				info, err := api.Stat()
				return err == nil && info.Mode().IsRegular()
			}
		}
	}
	var injected []fault
	fsys.Fault = func(op symfs.Op) error {
		if len(injected) >= maxFaults {
			return nil
		}
		if !verifrt.Bool("fault@" + op.Kind + ":" + op.Path) {
			return nil
		}
		err := errGeneric
		switch verifrt.Choice("errkind", 3) {
		case 1:
			err = fs.ErrPermission
		case 2:
			err = fs.ErrNotExist // e.g. the entry vanished after it was listed
		}
		injected = append(injected, fault{op, err})
		return err
	}
	cfg := &filesystem.Config{
		ScanRoots:       []*scalibrfs.ScanRoot{{FS: fsys}},
		Stats:           stats.NoopCollector{},
		ErrorOnFSErrors: fatal,
	}
	for _, e := range exs {
		cfg.Extractors = append(cfg.Extractors, e)
	}
	if sizeLimit {
		cfg.MaxFileSize = 100
	}
	inv, statuses, err := filesystem.Run(context.Background(), cfg)
	verifrt.Reach("terminated")

	// classify the injected faults
	traversal := false // stat of the root, open of a directory, directory read
	lazyStat := false
	var failingDirs, failingFiles []string
	for _, f := range injected {
		n := fsys.Lookup(f.op.Path)
		isDir := n != nil && n.Mode.IsDir()
		switch {
		case f.op.Kind == "stat" && f.op.Path == ".", f.op.Kind == "readdir", f.op.Kind == "open" && isDir:
			traversal = true
			failingDirs = append(failingDirs, f.op.Path)
		case f.op.Kind == "stat":
			lazyStat = true
			failingFiles = append(failingFiles, f.op.Path)
		default: // open / fstat / read of a file
			failingFiles = append(failingFiles, f.op.Path)
		}
	}
	if len(injected) > 0 {
		verifrt.Reach("fault-injected")
		verifrt.Tag("faults")
	}
	if lazyStat {
		verifrt.Tag("C09-lazy-size-stat-fails")
	}

	scanFailed := err != nil
	if fatal {
		if traversal {
			verifrt.Assert(scanFailed, "fatal-on-error: a traversal failure makes the scan fail")
		}
	} else if len(injected) == 1 {
		verifrt.Assert(!scanFailed, "not fatal-on-error: no single failure makes the scan fail")
	}
	if len(injected) == 0 {
		verifrt.Assert(!scanFailed, "fault-free scan succeeds")
	}
	if scanFailed {
		verifrt.Reach("scan-failed")
		return
	}

	// files outside every failing directory / file are extracted exactly as in the fault-free scan (once)
	for _, p := range files {
		outside := true
		for _, d := range failingDirs {
			if under(d, p) {
				outside = false
			}
		}
		for _, f := range failingFiles {
			if f == p {
				outside = false
			}
		}
		if outside {
			for _, e := range exs {
				verifrt.Assert(e.Extracts[p] == 1, "a file outside the failing directory/file is extracted exactly as in a fault-free scan")
				found := 0
				for _, pk := range inv.Packages {
					if pk.Name == e.ExName+":"+p {
						found++
					}
				}
				verifrt.Assert(found == 1, "its package is reported exactly once")
			}
		}
	}
	verifrt.Assert(len(statuses) == nex, "one status entry per extractor")
	if nex != 1 {
		// the status rules are asserted in the one-extractor runs (which extractor owns a shared
		// open/size failure is not fixed by the property)
		return
	}
	if statInRequired && lazyStat {
		// the extractor itself declined the file whose Stat failed: it is not a required file
		verifrt.Reach("declined-after-stat-failure")
		return
	}
	// a failure to open/stat/read a required file shows in the owner's status
	if len(failingFiles) > 0 && len(statuses) == 1 {
		verifrt.Reach("file-failure")
		st := statuses[0].Status.Status
		if len(inv.Packages) > 0 {
			verifrt.Assert(st == plugin.ScanStatusPartiallySucceeded, "file failure: extractor status is partially-succeeded when it produced other results")
		} else {
			verifrt.Assert(st == plugin.ScanStatusFailed, "file failure: extractor status is failed when it produced nothing")
		}
	}
	if len(failingFiles) == 0 && len(statuses) == 1 {
		verifrt.Assert(statuses[0].Status.Status == plugin.ScanStatusSucceeded, "without a file failure the extractor status is succeeded")
	}
	verifrt.Assert(len(statuses) == 1, "one status entry per extractor")
}

// VerifExtractorError: an extractor failing on one file is confined to its own status.
func VerifExtractorError() {
	fsys := tree()
	x := readingExtractor("x")
	y := readingExtractor("y")
	bad := verifrt.Choice("failing-file", len(files)+1) // len(files) = fails on none
	failAll := verifrt.Choice("fails-everywhere", 2) == 1
	yInner := y.OnExtract
	y.OnExtract = func(c context.Context, in *filesystem.ScanInput) (inventory.Inventory, error) {
		if failAll || (bad < len(files) && in.Path == files[bad]) {
			return inventory.Inventory{}, errGeneric
		}
		return yInner(c, in)
	}
	// the failing extractor is listed after or before the healthy one
	order := []filesystem.Extractor{x, y}
	if verifrt.Choice("failing-extractor-first", 2) == 1 {
		order = []filesystem.Extractor{y, x}
	}
	inv, statuses, err := filesystem.Run(context.Background(), &filesystem.Config{
		Extractors: order,
		ScanRoots:  []*scalibrfs.ScanRoot{{FS: fsys}},
		Stats:      stats.NoopCollector{},
	})
	verifrt.Assert(err == nil, "an extractor error does not fail the scan")
	verifrt.Assert(len(statuses) == 2, "one status entry per extractor")
	if len(statuses) != 2 {
		return
	}
	if statuses[0].Name != "x" {
		statuses[0], statuses[1] = statuses[1], statuses[0]
	}
	verifrt.Assert(statuses[0].Name == "x" && statuses[1].Name == "y", "one status entry per extractor")
	nx, ny := 0, 0
	for _, p := range inv.Packages {
		if p.Extractor == filesystem.Extractor(x) {
			nx++
		}
		if p.Extractor == filesystem.Extractor(y) {
			ny++
		}
	}
	verifrt.Assert(nx == len(files), "the other extractor's results are unaffected")
	verifrt.Assert(statuses[0].Status.Status == plugin.ScanStatusSucceeded, "the other extractor's status is unaffected")
	wantY := plugin.ScanStatusSucceeded
	switch {
	case failAll:
		wantY = plugin.ScanStatusFailed
	case bad < len(files):
		wantY = plugin.ScanStatusPartiallySucceeded
	}
	verifrt.Assert(statuses[1].Status.Status == wantY, "the failing extractor's status reflects the failure (failed, or partially succeeded if it produced other results)")
	if !failAll && bad < len(files) {
		verifrt.Assert(ny == len(files)-1, "the failing extractor's other files are still reported")
		verifrt.Reach("partial")
	}
}

// VerifTwin must be violated.
func VerifTwin() {
	fsys := tree()
	n := 0
	fsys.Fault = func(op symfs.Op) error {
		if n == 0 && verifrt.Bool("fault") {
			n++
			return errGeneric
		}
		return nil
	}
	_, _, err := filesystem.Run(context.Background(), &filesystem.Config{
		Extractors:      []filesystem.Extractor{readingExtractor("x")},
		ScanRoots:       []*scalibrfs.ScanRoot{{FS: fsys}},
		Stats:           stats.NoopCollector{},
		ErrorOnFSErrors: true,
	})
	if err != nil {
		verifrt.Fail("twin")
	}
}
