// Package c10 is the harness for C10 (overlay-only package internal/verifh/c10).
package c10

import (
	"context"
	"errors"
	"io/fs"
	"time"

	"github.com/google/osv-scalibr/detector"
	"github.com/google/osv-scalibr/extractor"
	"github.com/google/osv-scalibr/extractor/filesystem"
	"github.com/google/osv-scalibr/extractor/standalone"
	scalibrfs "github.com/google/osv-scalibr/fs"
	"github.com/google/osv-scalibr/internal/verifrt"
	"github.com/google/osv-scalibr/internal/verifrt/fake"
	"github.com/google/osv-scalibr/internal/verifrt/symfs"
	"github.com/google/osv-scalibr/inventory"
	"github.com/google/osv-scalibr/packageindex"
	"github.com/google/osv-scalibr/plugin"
	"github.com/google/osv-scalibr/purl"
	"github.com/google/osv-scalibr/stats"
)

// flagCtx is a context that is cancelled when the harness says so.
type flagCtx struct{ cancelled bool }

func (c *flagCtx) Deadline() (time.Time, bool) { return time.Time{}, false }
func (c *flagCtx) Done() <-chan struct{}       { return nil }
func (c *flagCtx) Value(any) any               { return nil }
func (c *flagCtx) Err() error {
	if c.cancelled {
		return context.Canceled
	}
	return nil
}

// collector counts inode visits and lets the harness act between files.
type collector struct {
	stats.NoopCollector
	inodes  int
	onInode func(n int)
}

func (c *collector) AfterInodeVisited(string) {
	c.inodes++
	if c.onInode != nil {
		c.onInode(c.inodes)
	}
}

const nInodes = 7 // ".", a.pkg, d, d/b.pkg, d/e, d/e/c.pkg, z.pkg

func tree() (*symfs.FS, []*symfs.Node) {
	a := symfs.File("a.pkg", "x")
	b := symfs.File("b.pkg", "x")
	c := symfs.File("c.pkg", "x")
	z := symfs.File("z.pkg", "x")
	return &symfs.FS{Root: symfs.Dir(".", a, symfs.Dir("d", b, symfs.Dir("e", c)), z)}, []*symfs.Node{a, b, c, z}
}

// VerifInodeAndSizeLimits: limits as machine integers.
func VerifInodeAndSizeLimits() {
	fsys, leaves := tree()
	maxInodes := verifrt.IntRange("maxInodes", 0, 1<<40)
	maxSize := verifrt.IntRange("maxFileSize", 0, 1<<40)
	sizes := make([]int64, len(leaves))
	for i, l := range leaves {
		if i < 2 {
			sizes[i] = int64(verifrt.IntRange("size", 0, 1<<40))
		} else {
			sizes[i] = 1
		}
		l.Size = sizes[i]
	}
	ex := fake.NewExtractor("x", func(string) bool { return true })
	tooBigSeen := false
	ex.OnExtract = func(_ context.Context, in *filesystem.ScanInput) (inventory.Inventory, error) {
		sz := in.Info.Size()
		tooBigSeen = verifrt.Or(tooBigSeen, verifrt.And(maxSize > 0, sz > int64(maxSize)))
		return inventory.Inventory{}, nil
	}
	// a second and third extractor require the same files ("any extractor")
	ex2 := fake.NewExtractor("y", func(string) bool { return true })
	ex2.OnExtract = ex.OnExtract
	ex3 := fake.NewExtractor("z", func(p string) bool { return p == "a.pkg" })
	ex3.OnExtract = ex.OnExtract
	col := &collector{}
	_, _, err := filesystem.Run(context.Background(), &filesystem.Config{
		Extractors:  []filesystem.Extractor{ex, ex2, ex3},
		ScanRoots:   []*scalibrfs.ScanRoot{{FS: fsys}},
		Stats:       col,
		MaxInodes:   maxInodes,
		MaxFileSize: maxSize,
	})
	limited := maxInodes > 0
	verifrt.Assert(verifrt.Implies(limited, col.inodes <= maxInodes), "no more inodes processed than the inode limit")
	verifrt.Assert(verifrt.Iff(err != nil, verifrt.And(limited, maxInodes < nInodes)), "scan fails exactly when the tree holds more inodes than the limit")
	verifrt.Assert(verifrt.Not(tooBigSeen), "no file larger than the size limit is handed to an extractor")
	if err == nil {
		verifrt.Reach("completed")
		for i, l := range leaves {
			_ = l
			want := verifrt.Not(verifrt.And(maxSize > 0, sizes[i] > int64(maxSize)))
			path := []string{"a.pkg", "d/b.pkg", "d/e/c.pkg", "z.pkg"}[i]
			verifrt.Assert(ex.Extracts[path] == verifrt.B2I(want), "files within the size limit (and all files when the limit is 0) are still extracted")
		}
	} else {
		verifrt.Reach("inode-limit-hit")
	}
}

// VerifSizeLimitSymlink: with symlink reading on, the size limit applies to what the link resolves
// to (the file handed to the extractor), not to the link's own directory entry.
func VerifSizeLimitSymlink() {
	maxSize := verifrt.IntRange("maxFileSize", 1, 1<<40)
	target := &symfs.Node{Name: "big", Mode: 0o644, Size: int64(verifrt.IntRange("size", 0, 1<<40)), Data: []byte("x")}
	link := &symfs.Node{Name: "l.pkg", Mode: fs.ModeSymlink | 0o777, Size: 3, Target: target}
	fsys := &symfs.FS{Root: symfs.Dir(".", link)}
	ex := fake.NewExtractor("x", func(string) bool { return true })
	tooBigSeen := false
	ex.OnExtract = func(_ context.Context, in *filesystem.ScanInput) (inventory.Inventory, error) {
		tooBigSeen = verifrt.Or(tooBigSeen, in.Info.Size() > int64(maxSize))
		return inventory.Inventory{}, nil
	}
	_, _, err := filesystem.Run(context.Background(), &filesystem.Config{
		Extractors:   []filesystem.Extractor{ex},
		ScanRoots:    []*scalibrfs.ScanRoot{{FS: fsys}},
		Stats:        stats.NoopCollector{},
		MaxFileSize:  maxSize,
		ReadSymlinks: true,
	})
	verifrt.Assert(err == nil, "the scan succeeds")
	verifrt.Assert(verifrt.Not(tooBigSeen), "no file larger than the size limit is handed to an extractor")
	verifrt.Assert(ex.Extracts["l.pkg"] == verifrt.B2I(target.Size <= int64(maxSize)), "files within the size limit (and all files when the limit is 0) are still extracted")
	verifrt.Reach("scanned")
}

// VerifInodeLimitRoots: the inode limit bounds the scan as a whole, also when it has several roots.
func VerifInodeLimitRoots() {
	fs1, _ := tree()
	fs2, _ := tree()
	maxInodes := verifrt.IntRange("maxInodes", 0, 1<<40)
	ex := fake.NewExtractor("x", func(string) bool { return true })
	col := &collector{}
	_, _, err := filesystem.Run(context.Background(), &filesystem.Config{
		Extractors: []filesystem.Extractor{ex},
		ScanRoots:  []*scalibrfs.ScanRoot{{FS: fs1}, {FS: fs2}},
		Stats:      col,
		MaxInodes:  maxInodes,
	})
	limited := maxInodes > 0
	verifrt.Assert(verifrt.Implies(limited, col.inodes <= maxInodes), "no more inodes processed than the inode limit")
	verifrt.Assert(verifrt.Iff(err != nil, verifrt.And(limited, maxInodes < 2*nInodes)), "scan fails exactly when the tree holds more inodes than the limit")
	if err == nil {
		verifrt.Reach("completed")
	} else {
		verifrt.Reach("inode-limit-hit")
	}
}

// VerifCancelFilesystem: once the context is cancelled no extraction starts on a further file,
// and the scan reports failure whenever work remained.
func VerifCancelFilesystem() {
	fsys, _ := tree()
	ctx := &flagCtx{}
	mode := verifrt.Choice("mode", 3) // 0: before the scan, 1: inside the k-th Extract, 2: between files (after the j-th inode)
	k := verifrt.IntRange("k", 1, 5)
	extracts := 0
	startedAfterCancel := false
	ex := fake.NewExtractor("x", func(string) bool { return true })
	ex.OnExtract = func(c context.Context, in *filesystem.ScanInput) (inventory.Inventory, error) {
		startedAfterCancel = verifrt.Or(startedAfterCancel, ctx.cancelled)
		extracts++
		if mode == 1 && verifrt.Concretize(verifrt.B2I(extracts == k)) == 1 {
			ctx.cancelled = true
		}
		return inventory.Inventory{}, nil
	}
	col := &collector{}
	inodesAtCancel := -1
	col.onInode = func(n int) {
		if mode == 2 && !ctx.cancelled && verifrt.Concretize(verifrt.B2I(n == k)) == 1 {
			ctx.cancelled = true
		}
	}
	if mode == 0 {
		ctx.cancelled = true
	}
	_ = inodesAtCancel
	_, _, err := filesystem.Run(ctx, &filesystem.Config{
		Extractors: []filesystem.Extractor{ex},
		ScanRoots:  []*scalibrfs.ScanRoot{{FS: fsys}},
		Stats:      col,
	})
	verifrt.Assert(verifrt.Not(startedAfterCancel), "no extraction starts after the context is cancelled")
	if ctx.cancelled {
		verifrt.Reach("cancelled")
		// work remained unless the cancellation happened while handling the last inode
		remained := col.inodes < nInodes || mode == 0
		if remained {
			verifrt.Assert(err != nil, "a cancelled scan with work remaining reports failure")
			verifrt.Assert(errors.Is(err, context.Canceled), "the failure is the context's error")
		}
	} else {
		verifrt.Reach("not-cancelled")
		verifrt.Assert(err == nil, "an uncancelled scan succeeds")
		verifrt.Assert(extracts == 4, "an uncancelled scan extracts every file")
	}
}

type saEx struct {
	name string
	run  func()
}

func (e *saEx) Name() string                       { return e.name }
func (e *saEx) Version() int                       { return 1 }
func (e *saEx) Requirements() *plugin.Capabilities { return &plugin.Capabilities{} }
func (e *saEx) Extract(context.Context, *standalone.ScanInput) (inventory.Inventory, error) {
	e.run()
	return inventory.Inventory{}, nil
}
func (e *saEx) ToPURL(*extractor.Package) *purl.PackageURL { return nil }
func (e *saEx) Ecosystem(*extractor.Package) string        { return "" }

type det struct {
	name string
	run  func()
}

func (d *det) Name() string                       { return d.name }
func (d *det) Version() int                       { return 1 }
func (d *det) Requirements() *plugin.Capabilities { return &plugin.Capabilities{} }
func (d *det) RequiredExtractors() []string       { return nil }
func (d *det) Scan(context.Context, *scalibrfs.ScanRoot, *packageindex.PackageIndex) ([]*detector.Finding, error) {
	d.run()
	return nil, nil
}

// VerifCancelPlugins: standalone.Run and detector.Run start no further plugin once cancelled.
func VerifCancelPlugins() {
	which := verifrt.Choice("which", 2)
	n := 3
	k := verifrt.IntRange("k", 0, 4) // plugin index (1-based) that cancels while running; 0 = cancelled beforehand; 4 = never
	ctx := &flagCtx{cancelled: verifrt.Concretize(verifrt.B2I(k == 0)) == 1}
	ran := 0
	startedAfterCancel := false
	body := func() {
		startedAfterCancel = startedAfterCancel || ctx.cancelled
		ran++
		if verifrt.Concretize(verifrt.B2I(ran == k)) == 1 {
			ctx.cancelled = true
		}
	}
	var err error
	fsys, _ := tree()
	root := &scalibrfs.ScanRoot{FS: fsys}
	if which == 0 {
		var exs []standalone.Extractor
		for i := 0; i < n; i++ {
			exs = append(exs, &saEx{name: string(rune('a' + i)), run: body})
		}
		_, _, err = standalone.Run(ctx, &standalone.Config{Extractors: exs, ScanRoot: root})
	} else {
		var ds []detector.Detector
		for i := 0; i < n; i++ {
			ds = append(ds, &det{name: string(rune('a' + i)), run: body})
		}
		ix, _ := packageindex.New(nil)
		_, _, err = detector.Run(ctx, stats.NoopCollector{}, ds, root, ix)
	}
	verifrt.Assert(!startedAfterCancel, "no plugin runs after the context is cancelled")
	if ctx.cancelled && ran < n {
		verifrt.Reach("cancelled-with-work-left")
		verifrt.Assert(err != nil, "cancellation with plugins left reports failure")
	}
	if !ctx.cancelled {
		verifrt.Assert(err == nil && ran == n, "without cancellation every plugin runs")
	}
}

// VerifTwin must be violated.
func VerifTwin() {
	fsys, _ := tree()
	maxInodes := verifrt.IntRange("maxInodes", 0, 10)
	_, _, err := filesystem.Run(context.Background(), &filesystem.Config{
		Extractors: []filesystem.Extractor{fake.NewExtractor("x", func(string) bool { return true })},
		ScanRoots:  []*scalibrfs.ScanRoot{{FS: fsys}},
		Stats:      stats.NoopCollector{},
		MaxInodes:  maxInodes,
	})
	if err != nil {
		verifrt.Fail("twin")
	}
}
