package vulns

// Harness for C18, injected by overlay.

import (
	"github.com/google/osv-scalibr/extractor"
	"github.com/google/osv-scalibr/internal/verifrt"
	"github.com/google/osv-scalibr/plugin"
	"github.com/google/osv-scalibr/purl"
	"github.com/ossf/osv-schema/bindings/go/osvschema"
)

type verifExtractor struct{ eco string }

func (e verifExtractor) Name() string                               { return "verif" }
func (e verifExtractor) Version() int                               { return 0 }
func (e verifExtractor) Requirements() *plugin.Capabilities         { return &plugin.Capabilities{} }
func (e verifExtractor) ToPURL(*extractor.Package) *purl.PackageURL { return nil }
func (e verifExtractor) Ecosystem(*extractor.Package) string        { return e.eco }

const (
	kIntroduced = 0
	kFixed      = 1
	kLast       = 2
)

// verifVersion renders digit d ('1'..'9') as a version of the ecosystem.
func verifVersion(eco string, d byte) string {
	switch eco {
	case "npm":
		return string([]byte{d}) + ".0.0"
	default: // Maven, PyPI
		return string([]byte{d}) + ".0"
	}
}

type verifEvent struct {
	kind int  // concrete (choice)
	d    int  // symbolic 1..9, or 0 for the literal "0"
	zero bool // the literal version "0" (introduced only)
}

// verifRange builds k events with symbolic versions and returns them with the
// OSV events in listing order (positions are fixed; since the versions are
// symbolic every listing order of every version assignment is covered).
func verifRange(eco string, k int, prefix string) ([]verifEvent, []osvschema.Event) {
	evs := make([]verifEvent, k)
	out := make([]osvschema.Event, k)
	for i := 0; i < k; i++ {
		kind := verifrt.Choice(prefix+"kind", 3)
		zero := false
		if kind == kIntroduced {
			zero = verifrt.Choice(prefix+"zero", 2) == 1
		}
		var ver string
		d := 0
		if zero {
			ver = "0"
		} else {
			b := verifrt.Byte(prefix + "digit")
			verifrt.Assume(verifrt.And(b >= '1', b <= '9'))
			d = int(b - '0')
			ver = verifVersion(eco, b)
		}
		evs[i] = verifEvent{kind: kind, d: d, zero: zero}
		switch kind {
		case kIntroduced:
			out[i].Introduced = ver
		case kFixed:
			out[i].Fixed = ver
		default:
			out[i].LastAffected = ver
		}
	}
	return evs, out
}

// verifWellFormed: once ordered by version (an introduced event ordered before a
// last_affected event of the same version), the events alternate introduced,
// fixed/last_affected, ..., starting with introduced; versions are pairwise
// distinct except for such an (introduced, last_affected) pair.
func verifWellFormed(evs []verifEvent) bool {
	ok := true
	for i := range evs {
		pos := 0 // sorted position of event i
		for j := range evs {
			if i == j {
				continue
			}
			eq := evs[i].d == evs[j].d
			tieAllowed := (evs[i].kind == kIntroduced && evs[j].kind == kLast) || (evs[i].kind == kLast && evs[j].kind == kIntroduced)
			if !tieAllowed {
				ok = verifrt.And(ok, verifrt.Not(eq))
			}
			before := evs[j].d < evs[i].d
			if evs[i].kind == kLast && evs[j].kind == kIntroduced {
				before = verifrt.Or(before, eq)
			}
			pos += verifrt.B2I(before)
		}
		even := pos&1 == 0
		if evs[i].kind == kIntroduced {
			ok = verifrt.And(ok, even)
		} else {
			ok = verifrt.And(ok, verifrt.Not(even))
		}
	}
	return ok
}

// verifOracle is the OSV evaluation over the digits as integers.
func verifOracle(evs []verifEvent, v int) bool {
	affected := false
	for _, i := range evs {
		if i.kind != kIntroduced {
			continue
		}
		open := i.d <= v
		for _, c := range evs {
			switch c.kind {
			case kFixed:
				open = verifrt.And(open, verifrt.Not(verifrt.And(i.d <= c.d, c.d <= v)))
			case kLast:
				open = verifrt.And(open, verifrt.Not(verifrt.And(i.d <= c.d, c.d < v)))
			}
		}
		affected = verifrt.Or(affected, open)
	}
	return affected
}

// VerifIsAffected: one affected entry, one range of k events.
func VerifIsAffected() {
	eco := verifrt.ParamStr("eco")
	k := verifrt.Param("k")
	var evs []verifEvent
	var events []osvschema.Event
	if k == 0 {
		// fixed shape [introduced x, fixed y], x < y
		bi, bf := verifrt.Byte("e-introduced"), verifrt.Byte("e-fixed")
		verifrt.Assume(verifrt.And(verifrt.And(bi >= '1', bi <= '9'), verifrt.And(bf >= '1', bf <= '9')))
		verifrt.Assume(bi < bf)
		evs = []verifEvent{{kind: kIntroduced, d: int(bi - '0')}, {kind: kFixed, d: int(bf - '0')}}
		events = []osvschema.Event{{Introduced: verifVersion(eco, bi)}, {Fixed: verifVersion(eco, bf)}}
	} else {
		evs, events = verifRange(eco, k, "e")
		verifrt.Assume(verifWellFormed(evs))
	}
	// optionally a second range of the same affected entry (ranges may overlap or nest)
	var evs2 []verifEvent
	var events2 []osvschema.Event
	simple := verifrt.Param("ranges") == 2
	if simple {
		// [introduced x, fixed y] with x < y; the other dimensions (range type, name/ecosystem
		// match, explicit list, pre-release query) are those of the one-range runs and fixed here
		bi, bf := verifrt.Byte("f-introduced"), verifrt.Byte("f-fixed")
		verifrt.Assume(verifrt.And(verifrt.And(bi >= '1', bi <= '9'), verifrt.And(bf >= '1', bf <= '9')))
		verifrt.Assume(bi < bf)
		evs2 = []verifEvent{{kind: kIntroduced, d: int(bi - '0')}, {kind: kFixed, d: int(bf - '0')}}
		events2 = []osvschema.Event{{Introduced: verifVersion(eco, bi)}, {Fixed: verifVersion(eco, bf)}}
	}

	// the queried version: <d>.0(.0) with a symbolic digit, or a pre-release of zero, which sorts
	// below every <d>.0(.0) but after the literal "0" that precedes every version
	var vb byte
	var v int
	queried := ""
	if !simple && verifrt.Choice("prerelease-of-zero", 2) == 1 {
		queried = map[string]string{"npm": "0.0.0-alpha.1", "Maven": "0-alpha-1", "PyPI": "0a1"}[eco]
		v = 0
	} else {
		vb = verifrt.Byte("v")
		verifrt.Assume(verifrt.And(vb >= '1', vb <= '9'))
		v = int(vb - '0')
		queried = verifVersion(eco, vb)
	}

	rtype, nameMatch, ecoMatch, listed := "ECOSYSTEM", true, true, false
	nameChoice := 0
	if !simple {
		rtype = []string{"ECOSYSTEM", "SEMVER", "GIT"}[verifrt.Choice("rtype", 3)]
		nameChoice = verifrt.Choice("name", 3) // 0: the package's name, 1: another name, 2: the name in another case
		nameMatch = nameChoice == 0
		ecoMatch = verifrt.Choice("eco", 2) == 0
		listed = verifrt.Choice("listed", 2) == 1
	}

	aff := osvschema.Affected{}
	aff.Package.Name = "pkg"
	switch nameChoice {
	case 1:
		aff.Package.Name = "other"
	case 2:
		aff.Package.Name = "PKG" // package names are case-sensitive
	}
	aff.Package.Ecosystem = eco
	if !ecoMatch {
		aff.Package.Ecosystem = "Go"
	}
	listedHit := false
	if listed {
		lb := verifrt.Byte("listed")
		verifrt.Assume(verifrt.And(lb >= '1', lb <= '9'))
		aff.Versions = []string{"0.0.1", verifVersion(eco, lb)}
		if verifrt.Choice("listed-order", 2) == 1 {
			// the explicit list is not ordered
			aff.Versions = []string{verifVersion(eco, lb), "0.0.1"}
		}
		listedHit = verifrt.StrEq(verifVersion(eco, lb), queried)
	}
	aff.Ranges = []osvschema.Range{{Type: osvschema.RangeType(rtype), Events: events}}
	if evs2 != nil {
		aff.Ranges = append(aff.Ranges, osvschema.Range{Type: osvschema.RangeType(rtype), Events: events2})
	}
	vuln := &osvschema.Vulnerability{ID: "V-1", Affected: []osvschema.Affected{aff}}
	pkg := &extractor.Package{Name: "pkg", Version: queried, Extractor: verifExtractor{eco}}

	got := IsAffected(vuln, pkg)

	typeOK := rtype == "ECOSYSTEM" || (rtype == "SEMVER" && eco == "npm")
	want := false
	if nameMatch && ecoMatch {
		want = listedHit
		if typeOK {
			want = verifrt.Or(want, verifOracle(evs, v))
			if evs2 != nil {
				want = verifrt.Or(want, verifOracle(evs2, v))
			}
		}
	}
	verifrt.Reach("evaluated")
	verifrt.ObserveBool("affected", got)
	verifrt.Assert(verifrt.Iff(got, want), "IsAffected agrees with the OSV evaluation of the range")
}

// VerifTwin must be violated.
func VerifTwin() {
	evs, events := verifRange("npm", 1, "e")
	verifrt.Assume(verifWellFormed(evs))
	aff := osvschema.Affected{}
	aff.Package.Name = "pkg"
	aff.Package.Ecosystem = "npm"
	aff.Ranges = []osvschema.Range{{Type: "ECOSYSTEM", Events: events}}
	vuln := &osvschema.Vulnerability{ID: "V-1", Affected: []osvschema.Affected{aff}}
	pkg := &extractor.Package{Name: "pkg", Version: "5.0.0", Extractor: verifExtractor{"npm"}}
	if IsAffected(vuln, pkg) {
		verifrt.Fail("twin")
	}
}
