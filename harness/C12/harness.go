// Package c12 is the harness for the part of C12 that is within the symbolic executor's reach
// (overlay-only package guidedremediation/internal/verifh/c12): the REPORT attached to a patch is
// consistent with the two analyses it was computed from. remediation.ConstructPatches receives the
// analysis of the manifest before the patch and the analysis after it; the report's "fixed" and
// "introduced" sets must make   before - fixed + introduced = after   hold exactly, and the
// listed requirement changes must be exactly the requirements that differ. (That a fresh analysis
// of the file written to disk equals the "after" analysis needs the manifest writers and the
// resolvers and is NOT covered.)
package c12

import (
	"sort"
	"strings"

	"deps.dev/util/resolve"
	"deps.dev/util/resolve/dep"
	"github.com/google/osv-scalibr/guidedremediation/internal/manifest"
	"github.com/google/osv-scalibr/guidedremediation/internal/remediation"
	"github.com/google/osv-scalibr/guidedremediation/internal/resolution"
	"github.com/google/osv-scalibr/internal/verifrt"
	"github.com/ossf/osv-schema/bindings/go/osvschema"
)

type fakeManifest struct{ reqs []resolve.RequirementVersion }

func (m *fakeManifest) FilePath() string                           { return "package.json" }
func (m *fakeManifest) Root() resolve.Version                      { return resolve.Version{} }
func (m *fakeManifest) System() resolve.System                     { return resolve.NPM }
func (m *fakeManifest) Requirements() []resolve.RequirementVersion { return m.reqs }
func (m *fakeManifest) Groups() map[manifest.RequirementKey][]string {
	return map[manifest.RequirementKey][]string{}
}
func (m *fakeManifest) LocalManifests() []manifest.Manifest               { return nil }
func (m *fakeManifest) EcosystemSpecific() any                            { return nil }
func (m *fakeManifest) PatchRequirement(resolve.RequirementVersion) error { return nil }
func (m *fakeManifest) Clone() manifest.Manifest                          { return m }

func req(name, version string) resolve.RequirementVersion {
	return resolve.RequirementVersion{
		VersionKey: resolve.VersionKey{PackageKey: resolve.PackageKey{System: resolve.NPM, Name: name}, VersionType: resolve.Requirement, Version: version},
		Type:       dep.NewType(),
	}
}

func analysis(reqs []resolve.RequirementVersion, ids []string) *remediation.ResolvedManifest {
	r := &remediation.ResolvedManifest{Manifest: &fakeManifest{reqs}}
	for _, id := range ids {
		r.Vulns = append(r.Vulns, resolution.Vulnerability{OSV: &osvschema.Vulnerability{ID: id}})
	}
	return r
}

// VerifReport: every pair of analyses with up to n vulnerabilities each, whose IDs carry a
// symbolic byte (so which IDs the two analyses share, and in which listing order, is the solver's
// choice), and 3 requirements of which any subset changed.
func VerifReport() {
	n := verifrt.Param("vulns")
	mk := func(label string) ([]string, map[string]bool) {
		k := verifrt.Choice(label+"-count", n+1)
		var ids []string
		in := map[string]bool{}
		for i := 0; i < k; i++ {
			b := verifrt.Byte(label + "-id")
			verifrt.Assume(verifrt.And(b >= 'a', b <= 'e'))
			id := "GHSA-" + string([]byte{b})
			for _, o := range ids {
				verifrt.Assume(verifrt.Not(verifrt.StrEq(o, id))) // an analysis lists a vulnerability once
			}
			ids = append(ids, id)
			in[id] = true
		}
		return ids, in
	}
	before, inBefore := mk("before")
	after, inAfter := mk("after")
	names := []string{"a", "b", "c"}
	var oldReqs, newReqs []resolve.RequirementVersion
	changed := map[string]bool{}
	for _, nm := range names {
		oldReqs = append(oldReqs, req(nm, "^1.0.0"))
		if verifrt.Choice("requirement-changed", 2) == 1 {
			newReqs = append(newReqs, req(nm, "^2.0.0"))
			changed[nm] = true
		} else {
			newReqs = append(newReqs, req(nm, "^1.0.0"))
		}
	}
	// a second requirement of package "a" under an alias (npm: keyed on KnownAs): same package,
	// same old and new range as "a" when both change, told apart only by its dependency type
	aliasChanged := false
	{
		oldAlias, newAlias := req("a", "^1.0.0"), req("a", "^1.0.0")
		oldAlias.Type.AddAttr(dep.KnownAs, "a-alias")
		newAlias.Type.AddAttr(dep.KnownAs, "a-alias")
		if verifrt.Choice("alias-changed", 2) == 1 {
			newAlias.Version = "^2.0.0"
			aliasChanged = true
		}
		oldReqs = append(oldReqs, oldAlias)
		newReqs = append(newReqs, newAlias)
	}
	oldRes, newRes := analysis(oldReqs, before), analysis(newReqs, after)
	// the analyses also carry the vulnerabilities that the depth / severity / dev filters left out;
	// one such vulnerability (with an arbitrary ID, possibly one the patch brings into view) may
	// have been filtered out of the first analysis
	oldRes.UnfilteredVulns = append(oldRes.UnfilteredVulns, oldRes.Vulns...)
	newRes.UnfilteredVulns = append(newRes.UnfilteredVulns, newRes.Vulns...)
	if verifrt.Choice("filtered-out-before", 2) == 1 {
		b := verifrt.Byte("filtered-id")
		verifrt.Assume(verifrt.And(b >= 'a', b <= 'e'))
		id := "GHSA-" + string([]byte{b})
		for _, o := range before {
			verifrt.Assume(verifrt.Not(verifrt.StrEq(o, id)))
		}
		oldRes.UnfilteredVulns = append(oldRes.UnfilteredVulns, resolution.Vulnerability{OSV: &osvschema.Vulnerability{ID: id}})
	}
	patch := remediation.ConstructPatches(oldRes, newRes)
	verifrt.Reach("report-built")

	var fixed, introduced []string
	for _, v := range patch.Fixed {
		fixed = append(fixed, v.ID)
	}
	for _, v := range patch.Introduced {
		introduced = append(introduced, v.ID)
	}
	verifrt.ObserveStr("fixed", strings.Join(fixed, ","))
	verifrt.ObserveStr("introduced", strings.Join(introduced, ","))
	// before - fixed + introduced = after, with no vulnerability listed twice or in both sets
	result := map[string]bool{}
	for id := range inBefore {
		result[id] = true
	}
	seen := map[string]bool{}
	for _, id := range fixed {
		verifrt.Assert(inBefore[id] && !seen[id], "a vulnerability reported as fixed was found before the patch, and is listed once")
		seen[id] = true
		delete(result, id)
	}
	for _, id := range introduced {
		verifrt.Assert(!inBefore[id] && !seen[id], "a vulnerability reported as introduced was not found before the patch, and is listed once")
		seen[id] = true
		result[id] = true
	}
	var got, want []string
	for id := range result {
		got = append(got, id)
	}
	for id := range inAfter {
		want = append(want, id)
	}
	sort.Strings(got)
	sort.Strings(want)
	verifrt.Assert(strings.Join(got, ",") == strings.Join(want, ","), "the vulnerabilities before the patch, minus the fixed ones, plus the introduced ones, are exactly the vulnerabilities after it")
	verifrt.Assert(sort.StringsAreSorted(fixed) && sort.StringsAreSorted(introduced), "the report lists vulnerabilities in a fixed order")
	// requirement changes: exactly the requirements that differ
	nChanged := len(changed)
	if aliasChanged {
		nChanged++
	}
	verifrt.Assert(len(patch.PackageUpdates) == nChanged, "the report lists exactly the requirements that changed")
	aliasListed := false
	for _, u := range patch.PackageUpdates {
		if as, _ := u.Type.GetAttr(dep.KnownAs); as == "a-alias" {
			verifrt.Assert(aliasChanged && !aliasListed && u.Name == "a" && u.VersionFrom == "^1.0.0" && u.VersionTo == "^2.0.0", "each listed requirement change names a changed requirement with its old and new version")
			aliasListed = true
			continue
		}
		verifrt.Assert(changed[u.Name] && u.VersionFrom == "^1.0.0" && u.VersionTo == "^2.0.0", "each listed requirement change names a changed requirement with its old and new version")
	}
	verifrt.Assert(aliasListed == aliasChanged, "a changed aliased requirement of a package is listed beside the package's plain requirement")
	if nChanged == 0 {
		verifrt.Reach("no-requirement-changed")
	}
}

// VerifTwin must be violated.
func VerifTwin() {
	p := remediation.ConstructPatches(analysis(nil, []string{"V1"}), analysis(nil, nil))
	if len(p.Fixed) == 1 {
		verifrt.Fail("twin")
	}
}
