package maven

// Harness for C13 (kernel: generatePropertyPatches), injected by overlay.

import (
	"strings"

	"github.com/google/osv-scalibr/internal/verifrt"
)

func verifAscii(s string) {
	for i := 0; i < len(s); i++ {
		verifrt.Assume(verifrt.And(s[i] >= 0x20, s[i] < 0x7f))
	}
}

// verifContains is strings.Contains(s, sub) as a fork-free condition.
func verifContains(s, sub string) bool {
	r := false
	for i := 0; i+len(sub) <= len(s); i++ {
		r = verifrt.Or(r, verifrt.StrEq(s[i:i+len(sub)], sub))
	}
	return r
}

// verifSubstitute replaces every well-formed ${key} of s whose key is in patches.
func verifSubstitute(s string, patches map[string]string) string {
	var sb strings.Builder
	for len(s) > 0 {
		i := strings.Index(s, "${")
		if i < 0 {
			break
		}
		j := strings.Index(s[i:], "}")
		if j < 0 {
			break
		}
		key := s[i+2 : i+j]
		sb.WriteString(s[:i])
		if v, ok := patches[key]; ok {
			sb.WriteString(v)
		} else {
			sb.WriteString(s[i : i+j+1])
		}
		s = s[i+j+1:]
	}
	sb.WriteString(s)
	return sb.String()
}

// VerifPropertyPatches: no panic; if ok, substituting the patches into s1 yields s2.
func VerifPropertyPatches() {
	s1 := verifrt.String("s1", verifrt.Param("n1"))
	s2 := verifrt.String("s2", verifrt.Param("n2"))
	verifAscii(s1)
	verifAscii(s2)
	// the call site guarantees only this (maven.String.ContainsProperty)
	verifrt.Assume(verifContains(s1, "${"))
	wellFormed := verifrt.Param("wellformed") == 1
	if wellFormed {
		// the documented shape: the first "}" comes after the first "${"
		i := strings.Index(s1, "${")
		j := strings.Index(s1, "}")
		if j < i+2 {
			return
		}
	}
	patches, ok := generatePropertyPatches(s1, s2)
	if !ok {
		verifrt.Reach("not-ok")
		return
	}
	verifrt.Reach("ok")
	got := verifSubstitute(s1, patches)
	verifrt.ObserveStr("substituted", got)
	verifrt.Assert(got == s2, "ok implies substituting the patches into s1 yields s2")
}

func verifSmall(name string, n int) string {
	s := verifrt.String(name, n)
	for i := 0; i < len(s); i++ {
		c := s[i]
		verifrt.Assume(verifrt.Or(c == '.', verifrt.Or(c == '0', c == '1')))
	}
	return s
}

// VerifTwoPlaceholders: s1 = L0 ${a} L1 ${b} L2 with literal chunks over {'.','0','1'} of the
// given lengths (reaching shapes far longer than the byte-symbolic runs), s2 over the same alphabet.
func VerifTwoPlaceholders() {
	l0 := verifSmall("l0", verifrt.Param("l0"))
	l1 := verifSmall("l1", verifrt.Param("l1"))
	l2 := verifSmall("l2", verifrt.Param("l2"))
	s2 := verifSmall("s2", verifrt.Param("n2"))
	second := "${b}"
	if verifrt.Choice("same-property-twice", 2) == 1 {
		second = "${a}"
		verifrt.Tag("C13-same-property-twice")
	}
	s1 := l0 + "${a}" + l1 + second + l2
	patches, ok := generatePropertyPatches(s1, s2)
	if !ok {
		verifrt.Reach("not-ok")
		return
	}
	verifrt.Reach("ok")
	got := verifSubstitute(s1, patches)
	verifrt.Assert(got == s2, "ok implies substituting the patches into s1 yields s2")
}

// VerifTwin must be violated.
func VerifTwin() {
	s1 := verifrt.String("s1", 5)
	s2 := verifrt.String("s2", 2)
	verifAscii(s1)
	verifAscii(s2)
	verifrt.Assume(verifContains(s1, "${"))
	if _, ok := generatePropertyPatches(s1, s2); ok {
		verifrt.Fail("twin")
	}
}
