// Package c17 is the harness for C17 (overlay-only package internal/verifh/c17).
package c17

import (
	"archive/tar"
	"errors"
	"io/fs"
	"path"
	"strings"

	"github.com/google/osv-scalibr/artifact/image/layerscanning/image"
	"github.com/google/osv-scalibr/internal/verifrt"
	"github.com/google/osv-scalibr/internal/verifrt/fakeimg"
	"github.com/google/osv-scalibr/internal/verifrt/tarstub"
	"github.com/google/osv-scalibr/internal/verifrt/vos"
)

var verifReplacements = merge(vos.Replacements, tarstub.Replacements)

func merge(ms ...map[string]any) map[string]any {
	out := map[string]any{}
	for _, m := range ms {
		for k, v := range m {
			out[k] = v
		}
	}
	return out
}

// the named entries, at two directory levels
var paths = []string{"e0", "e1", "d/e2", "d/e3", "e4"}

const (
	kFile = iota
	kDir
	kAbsent
	kDeleted // present in the first layer, deleted by a whiteout in the second
	kLink
	kOutside // a symlink whose target leaves the image root
	nKinds
)

type entry struct {
	decided bool
	kind    int
	to      int  // kLink: index of the target entry
	abs     bool // kLink: absolute or relative spelling
}

// relTarget spells the path of entry j relative to the directory of entry i.
func relTarget(i, j int) string {
	if path.Dir(paths[i]) == "." {
		return paths[j]
	}
	return "../" + paths[j]
}

// VerifResolve: every symlink chain starting at a chosen entry, every depth budget.
func VerifResolve() {
	vos.Reset()
	n := verifrt.Param("entries")
	maxDepth := verifrt.IntRange("maxSymlinkDepth", 0, verifrt.Param("max_depth"))
	es := make([]entry, n)
	// Decide the kinds along the chain from the start entry only; entries off the chain are plain
	// files (a lookup never touches them).
	start := verifrt.Choice("start", n)
	cur := start
	for !es[cur].decided {
		e := &es[cur]
		e.decided = true
		e.kind = verifrt.Choice("kind", nKinds)
		if e.kind == kLink {
			e.to = verifrt.Choice("target", n)
			e.abs = verifrt.Choice("absolute", 2) == 1
			cur = e.to
		}
	}
	var l0, l1 []tarstub.Entry
	l0 = append(l0, tarstub.Entry{Name: "d/", Typeflag: tar.TypeDir, Mode: 0o755})
	for i := range es {
		e := es[i]
		if !e.decided {
			e.kind = kFile
		}
		switch e.kind {
		case kFile, kDeleted:
			l0 = append(l0, tarstub.Entry{Name: paths[i], Typeflag: tar.TypeReg, Mode: 0o644, Size: int64(i + 1)})
			if e.kind == kDeleted {
				l1 = append(l1, tarstub.Entry{Name: path.Join(path.Dir(paths[i]), ".wh."+path.Base(paths[i])), Typeflag: tar.TypeReg, Mode: 0o600})
			}
		case kDir:
			l0 = append(l0, tarstub.Entry{Name: paths[i] + "/", Typeflag: tar.TypeDir, Mode: 0o755})
			l0 = append(l0, tarstub.Entry{Name: paths[i] + "/child", Typeflag: tar.TypeReg, Mode: 0o644, Size: 1})
		case kLink:
			t := "/" + paths[e.to]
			if !e.abs {
				t = relTarget(i, e.to)
			}
			l0 = append(l0, tarstub.Entry{Name: paths[i], Typeflag: tar.TypeSymlink, Linkname: t, Mode: 0o777})
		case kOutside:
			// the shortest relative target that leaves the root from this entry's directory
			t := strings.Repeat("../", strings.Count(paths[i], "/")+1) + "outside"
			l0 = append(l0, tarstub.Entry{Name: paths[i], Typeflag: tar.TypeSymlink, Linkname: t, Mode: 0o777})
		}
	}
	l1 = append(l1, tarstub.Entry{Name: "marker", Typeflag: tar.TypeReg, Mode: 0o644, Size: 1})
	img := &fakeimg.Image{Ls: []*fakeimg.Layer{{Index: 0, Entries: l0}, {Index: 1, Entries: l1}}}
	cfg := image.DefaultConfig()
	cfg.MaxSymlinkDepth = maxDepth
	out, err := image.FromV1Image(img, cfg)
	verifrt.Assert(err == nil, "the image loads")
	if err != nil {
		return
	}
	chain, _ := out.ChainLayers()
	fsys := chain[len(chain)-1].FS()

	// reference walk with an explicit hop counter
	hops := 0
	cur = start
	seen := map[int]bool{}
	outcome := "" // file | dir | missing | loop
	final := -1
	for {
		e := es[cur]
		k := e.kind
		if !e.decided {
			k = kFile
		}
		if k == kLink {
			if seen[cur] {
				outcome = "loop"
				break
			}
			seen[cur] = true
			hops++
			cur = e.to
			continue
		}
		final = cur
		switch k {
		case kFile:
			outcome = "file"
		case kDir:
			outcome = "dir"
		default: // absent, deleted, or a dropped outside-root symlink
			outcome = "missing"
		}
		break
	}
	verifrt.Reach("outcome-" + outcome)

	info, statErr := fsys.Stat(paths[start])
	f, openErr := fsys.Open(paths[start])
	isNotExist := func(err error) bool { return errors.Is(err, fs.ErrNotExist) }
	isBudget := func(err error) bool {
		return errors.Is(err, image.ErrSymlinkCycle) || errors.Is(err, image.ErrSymlinkDepthExceeded)
	}
	if es[start].kind == kDeleted {
		verifrt.Tag("start-is-deleted")
	}
	if outcome == "missing" && hops > 0 && es[final].kind == kDeleted {
		verifrt.Tag("C17-open-through-symlink-to-deleted-entry")
	}
	switch outcome {
	case "file", "dir":
		within := hops <= maxDepth // symbolic
		if verifrt.Concretize(verifrt.B2I(within)) == 1 {
			verifrt.Reach("resolved-within-budget")
			verifrt.Assert(statErr == nil && openErr == nil, "a chain of at most the maximum number of hops resolves")
			if statErr == nil {
				verifrt.Assert(info.IsDir() == (outcome == "dir"), "resolution yields the first non-symlink target (type)")
				if outcome == "file" {
					verifrt.Assert(info.Size() == int64(final+1), "resolution yields the first non-symlink target (never another file)")
				}
			}
			if openErr == nil {
				st, err := f.Stat()
				verifrt.Assert(err == nil && st.IsDir() == (outcome == "dir"), "open yields the first non-symlink target")
				if err == nil && outcome == "file" {
					verifrt.Assert(st.Size() == int64(final+1), "open yields the first non-symlink target (never another file)")
				}
			}
			if outcome == "dir" {
				ents, err := fsys.ReadDir(paths[start])
				verifrt.Assert(err == nil && len(ents) == 1 && ents[0].Name() == "child", "listing through the chain lists the target directory")
			}
		} else {
			verifrt.Reach("over-budget")
			verifrt.Assert(statErr != nil && isBudget(statErr), "a chain longer than the maximum number of hops fails with a depth or cycle error (stat)")
			verifrt.Assert(openErr != nil && isBudget(openErr), "a chain longer than the maximum number of hops fails with a depth or cycle error (open)")
		}
	case "missing":
		// the missing entry is reached by following hop number `hops`
		early := hops <= maxDepth
		boundary := hops == maxDepth+1
		switch {
		case verifrt.Concretize(verifrt.B2I(early)) == 1:
			verifrt.Assert(statErr != nil && isNotExist(statErr), "a chain reaching a missing or deleted entry within the budget is 'not found' (stat)")
			verifrt.Assert(openErr != nil && isNotExist(openErr), "a chain reaching a missing or deleted entry within the budget is 'not found' (open)")
		case verifrt.Concretize(verifrt.B2I(boundary)) == 1:
			verifrt.Assert(statErr != nil && (isNotExist(statErr) || isBudget(statErr)), "at the budget boundary a missing target is 'not found' or a depth error (stat)")
			verifrt.Assert(openErr != nil && (isNotExist(openErr) || isBudget(openErr)), "at the budget boundary a missing target is 'not found' or a depth error (open)")
		default:
			verifrt.Assert(statErr != nil && isBudget(statErr), "beyond the budget the result is a depth or cycle error (stat)")
			verifrt.Assert(openErr != nil && isBudget(openErr), "beyond the budget the result is a depth or cycle error (open)")
		}
	case "loop":
		verifrt.Assert(statErr != nil && isBudget(statErr), "a symlink cycle terminates with a cycle or depth error (stat)")
		verifrt.Assert(openErr != nil && isBudget(openErr), "a symlink cycle terminates with a cycle or depth error (open)")
	}
	// symlinks leaving the image root are not part of any view
	for i, e := range es {
		if e.decided && e.kind == kOutside {
			verifrt.Reach("outside-root-symlink")
			ents, _ := fsys.ReadDir(path.Dir(paths[i]))
			for _, d := range ents {
				verifrt.Assert(d.Name() != path.Base(paths[i]), "a symlink whose target leaves the image root is not in the view")
			}
		}
	}
	out.CleanUp()
}

// VerifTwin must be violated.
func VerifTwin() {
	vos.Reset()
	img := &fakeimg.Image{Ls: []*fakeimg.Layer{{Index: 0, Entries: []tarstub.Entry{
		{Name: "f", Typeflag: tar.TypeReg, Mode: 0o644, Size: 1},
		{Name: "l", Typeflag: tar.TypeSymlink, Linkname: "f", Mode: 0o777}}}}}
	cfg := image.DefaultConfig()
	cfg.MaxSymlinkDepth = verifrt.IntRange("d", 0, 3)
	out, err := image.FromV1Image(img, cfg)
	if err != nil {
		return
	}
	chain, _ := out.ChainLayers()
	if _, err := chain[0].FS().Stat("l"); err == nil {
		verifrt.Fail("twin")
	}
}
