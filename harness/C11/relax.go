package relaxer

// Harness for C11 (npm relax step), injected by overlay.

import (
	"context"

	"deps.dev/util/resolve"
	"deps.dev/util/resolve/dep"
	"deps.dev/util/semver"
	"github.com/google/osv-scalibr/guidedremediation/upgrade"
	"github.com/google/osv-scalibr/internal/verifrt"
)

type verifClient struct{ versions []string }

func (c verifClient) Version(_ context.Context, vk resolve.VersionKey) (resolve.Version, error) {
	return resolve.Version{VersionKey: vk}, nil
}
func (c verifClient) Versions(_ context.Context, pk resolve.PackageKey) ([]resolve.Version, error) {
	var out []resolve.Version
	for _, v := range c.versions {
		out = append(out, resolve.Version{VersionKey: resolve.VersionKey{PackageKey: pk, VersionType: resolve.Concrete, Version: v}})
	}
	return out, nil
}
func (c verifClient) Requirements(context.Context, resolve.VersionKey) ([]resolve.RequirementVersion, error) {
	return nil, nil
}
func (c verifClient) MatchingVersions(_ context.Context, vk resolve.VersionKey) ([]resolve.Version, error) {
	return nil, resolve.ErrNotFound
}

// verifVer renders a version from three symbolic digits.
func verifVer(label string, maxDigit int) (string, [3]int) {
	var d [3]int
	s := ""
	for i := 0; i < 3; i++ {
		b := verifrt.Byte(label)
		verifrt.Assume(verifrt.And(b >= '0', b <= byte('0'+maxDigit)))
		d[i] = int(b - '0')
		if i > 0 {
			s += "."
		}
		s += string([]byte{b})
	}
	return s, d
}

// verifMaxMatching returns the highest version of the universe matching the constraint (the
// ecosystem order being deps.dev's), or "" if none matches.
func verifMaxMatching(constraint string, universe []string) string {
	c, err := semver.NPM.ParseConstraint(constraint)
	if err != nil {
		return ""
	}
	best := ""
	for _, v := range universe {
		pv, err := semver.NPM.Parse(v)
		if err != nil || !c.MatchVersion(pv) {
			continue
		}
		if best == "" || semver.NPM.Compare(v, best) > 0 {
			best = v
		}
	}
	return best
}

// VerifRelax: one relaxation step only moves the requirement upward and within the level.
func VerifRelax() {
	n := verifrt.Param("versions")
	maxDigit := verifrt.Param("max_digit")
	var universe []string
	// one version of the universe (possibly the current one) may be a pre-release
	pre := verifrt.Choice("prerelease-index", n+1) - 1 // -1 = none
	for i := 0; i < n; i++ {
		v, _ := verifVer("version", maxDigit)
		if i == pre {
			v += "-alpha"
		}
		universe = append(universe, v)
	}
	verifrt.TagIf(pre == 0, "C11-relax-pinned-prerelease")
	// the current requirement names one of the versions, pinned or as a ^ / ~ range
	cur := universe[0]
	prefix := []string{"", "^", "~"}[verifrt.Choice("requirement-form", 3)]
	level := upgrade.Level(verifrt.Choice("level", 4))
	cfg := upgrade.NewConfig()
	if verifrt.Choice("per-package-level", 2) == 1 {
		cfg.Set("pkg", level)
		cfg.SetDefault(upgrade.Major)
	} else {
		cfg.SetDefault(level)
	}
	req := resolve.RequirementVersion{
		VersionKey: resolve.VersionKey{PackageKey: resolve.PackageKey{System: resolve.NPM, Name: "pkg"}, VersionType: resolve.Requirement, Version: prefix + cur},
		Type:       dep.NewType(),
	}
	got, ok := NpmRelaxer{}.Relax(context.Background(), verifClient{universe}, req, cfg)
	if !ok {
		verifrt.Reach("not-relaxed")
		verifrt.Assert(got.Version == req.Version, "an unrelaxed requirement is returned unchanged")
		return
	}
	verifrt.Reach("relaxed")
	verifrt.Assert(level != upgrade.None, "a package configured as not upgradable is never touched")
	base := verifMaxMatching(req.Version, universe)
	next := verifMaxMatching(got.Version, universe)
	verifrt.Assert(base != "" && next != "", "the relaxed requirement is satisfiable in the universe")
	if base == "" || next == "" {
		return
	}
	verifrt.Assert(semver.NPM.Compare(next, base) > 0, "relaxing moves the resolved version strictly upward")
	_, diff, err := semver.NPM.Difference(base, next)
	verifrt.Assert(err == nil && level.Allows(diff), "the upgrade stays within the level configured for the package")
}

// VerifTwin must be violated.
func VerifTwin() {
	v0, _ := verifVer("version", 1)
	req := resolve.RequirementVersion{
		VersionKey: resolve.VersionKey{PackageKey: resolve.PackageKey{System: resolve.NPM, Name: "pkg"}, VersionType: resolve.Requirement, Version: v0},
		Type:       dep.NewType(),
	}
	cfg := upgrade.NewConfig()
	if _, ok := (NpmRelaxer{}).Relax(context.Background(), verifClient{[]string{v0, "2.0.0"}}, req, cfg); ok {
		verifrt.Fail("twin")
	}
}
