package suggest

// Harness for C11 (Maven bulk update step), injected by overlay.

import (
	"context"

	"deps.dev/util/maven"
	"deps.dev/util/resolve"
	"deps.dev/util/resolve/dep"
	"deps.dev/util/semver"
	"github.com/google/osv-scalibr/guidedremediation/internal/manifest"
	mavenmanifest "github.com/google/osv-scalibr/guidedremediation/internal/manifest/maven"
	"github.com/google/osv-scalibr/guidedremediation/options"
	"github.com/google/osv-scalibr/guidedremediation/upgrade"
	"github.com/google/osv-scalibr/internal/verifrt"
)

// verifManifest is a Maven manifest given directly by its requirements.
type verifManifest struct {
	reqs     []resolve.RequirementVersion
	specific mavenmanifest.ManifestSpecific
}

func (m *verifManifest) FilePath() string                           { return "pom.xml" }
func (m *verifManifest) Root() resolve.Version                      { return resolve.Version{} }
func (m *verifManifest) System() resolve.System                     { return resolve.Maven }
func (m *verifManifest) Requirements() []resolve.RequirementVersion { return m.reqs }
func (m *verifManifest) Groups() map[manifest.RequirementKey][]string {
	return map[manifest.RequirementKey][]string{}
}
func (m *verifManifest) LocalManifests() []manifest.Manifest               { return nil }
func (m *verifManifest) EcosystemSpecific() any                            { return m.specific }
func (m *verifManifest) PatchRequirement(resolve.RequirementVersion) error { return nil }
func (m *verifManifest) Clone() manifest.Manifest                          { return m }

// VerifConfigFromStrings: the configuration parsed from "pkg:level" strings gives each named
// package its own level (package names may contain ':' themselves, as Maven's group:artifact)
// and every other package the default.
func VerifConfigFromStrings() {
	levels := []string{"major", "minor", "patch", "none"}
	want := []upgrade.Level{upgrade.Major, upgrade.Minor, upgrade.Patch, upgrade.None}
	names := []string{"lodash", "g:a", "org.x:lib-y", "@scope/pkg"}
	d := verifrt.Choice("default-level", 4)
	n := verifrt.Choice("package", len(names))
	l := verifrt.Choice("package-level", 4)
	entries := []string{levels[d], names[n] + ":" + levels[l]}
	if verifrt.Choice("default-last", 2) == 1 {
		entries = []string{names[n] + ":" + levels[l], levels[d]}
	}
	cfg := upgrade.NewConfigFromStrings(entries)
	verifrt.Reach("parsed")
	verifrt.Assert(cfg.Get(names[n]) == want[l], "the level configured for a package is the one that applies to it")
	verifrt.Assert(cfg.Get("some:other") == want[d] && cfg.Get("other") == want[d], "packages without their own entry get the default level")
}

// VerifSuggestAll: the whole bulk-update step (MavenSuggester.Suggest) on a manifest that requires
// one package twice at different versions (dependencies and a profile, say) and a second package
// configured as not upgradable: every proposed update moves its own requirement upward within
// the level, and the not-upgradable package is untouched.
func VerifSuggestAll() {
	maxDigit := verifrt.Param("max_digit")
	n := verifrt.Param("versions")
	var universe []string
	for i := 0; i < n; i++ {
		universe = append(universe, verifVer("version", maxDigit))
	}
	level := upgrade.Level(verifrt.Choice("level", 3))
	mk := func(name, v string) resolve.RequirementVersion {
		return resolve.RequirementVersion{
			VersionKey: resolve.VersionKey{PackageKey: resolve.PackageKey{System: resolve.Maven, Name: name}, VersionType: resolve.Requirement, Version: v},
			Type:       dep.NewType(),
		}
	}
	mf := &verifManifest{reqs: []resolve.RequirementVersion{mk("g:a", universe[0]), mk("g:a", universe[1]), mk("g:frozen", universe[0])}}
	mf.specific.OriginalRequirements = []mavenmanifest.DependencyWithOrigin{
		{Dependency: maven.Dependency{GroupID: "g", ArtifactID: "a", Version: maven.String(universe[0])}},
		{Dependency: maven.Dependency{GroupID: "g", ArtifactID: "frozen", Version: maven.String(universe[0])}},
	}
	cfg := upgrade.NewConfig()
	cfg.SetDefault(level)
	cfg.Set("g:frozen", upgrade.None)
	patch, err := (&MavenSuggester{}).Suggest(context.Background(), mf, options.UpdateOptions{ResolveClient: verifClient{universe}, UpgradeConfig: cfg})
	verifrt.Assert(err == nil, "a bulk update is computed")
	if err != nil {
		return
	}
	verifrt.Reach("suggested")
	for _, pu := range patch.PackageUpdates {
		verifrt.Assert(pu.Name != "g:frozen", "a package configured as not upgradable is never touched")
		c := semver.Maven.Compare(pu.VersionTo, pu.VersionFrom)
		verifrt.Assert(c > 0, "a bulk update moves a requirement strictly upward from its own version")
		if c > 0 {
			verifrt.Reach("upgraded")
			_, diff, derr := semver.Maven.Difference(pu.VersionFrom, pu.VersionTo)
			verifrt.Assert(derr == nil && level.Allows(diff), "the update stays within the configured level")
		}
	}
}

type verifClient struct{ versions []string }

func (c verifClient) Version(_ context.Context, vk resolve.VersionKey) (resolve.Version, error) {
	return resolve.Version{VersionKey: vk}, nil
}
func (c verifClient) Versions(_ context.Context, pk resolve.PackageKey) ([]resolve.Version, error) {
	var out []resolve.Version
	for _, v := range c.versions {
		out = append(out, resolve.Version{VersionKey: resolve.VersionKey{PackageKey: pk, VersionType: resolve.Concrete, Version: v}})
	}
	return out, nil
}
func (c verifClient) Requirements(context.Context, resolve.VersionKey) ([]resolve.RequirementVersion, error) {
	return nil, nil
}
func (c verifClient) MatchingVersions(context.Context, resolve.VersionKey) ([]resolve.Version, error) {
	return nil, resolve.ErrNotFound
}

func verifVer(label string, maxDigit int) string {
	s := ""
	for i := 0; i < 3; i++ {
		b := verifrt.Byte(label)
		verifrt.Assume(verifrt.And(b >= '0', b <= byte('0'+maxDigit)))
		if i > 0 {
			s += "."
		}
		s += string([]byte{b})
	}
	return s
}

// VerifSuggestMaven: the suggested version is never below the current one and the change is
// within the level; the universe lists the current version.
func VerifSuggestMaven() {
	n := verifrt.Param("versions")
	maxDigit := verifrt.Param("max_digit")
	var universe []string
	for i := 0; i < n; i++ {
		universe = append(universe, verifVer("version", maxDigit))
	}
	cur := universe[0]
	level := upgrade.Level(verifrt.Choice("level", 3)) // None is filtered out by the caller (Suggest)
	req := resolve.RequirementVersion{
		VersionKey: resolve.VersionKey{PackageKey: resolve.PackageKey{System: resolve.Maven, Name: "g:a"}, VersionType: resolve.Requirement, Version: cur},
		Type:       dep.NewType(),
	}
	got, err := suggestMavenVersion(context.Background(), verifClient{universe}, req, level)
	verifrt.Assert(err == nil, "a suggestion is computed for a simple version requirement")
	if err != nil {
		return
	}
	verifrt.Reach("suggested")
	c := semver.Maven.Compare(got.Version, cur)
	verifrt.Assert(c >= 0, "a bulk update never moves a requirement downward")
	if c > 0 {
		verifrt.Reach("upgraded")
		_, diff, derr := semver.Maven.Difference(cur, got.Version)
		verifrt.Assert(derr == nil && level.Allows(diff), "the update stays within the configured level")
		found := false
		for _, v := range universe {
			found = found || semver.Maven.Compare(v, got.Version) == 0
		}
		verifrt.Assert(found, "the suggested version exists in the universe")
	}
}
