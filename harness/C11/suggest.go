package suggest

// Harness for C11 (Maven bulk update step), injected by overlay.

import (
	"context"

	"deps.dev/util/resolve"
	"deps.dev/util/resolve/dep"
	"deps.dev/util/semver"
	"github.com/google/osv-scalibr/guidedremediation/upgrade"
	"github.com/google/osv-scalibr/internal/verifrt"
)

type verifClient struct{ versions []string }

func (c verifClient) Version(_ context.Context, vk resolve.VersionKey) (resolve.Version, error) {
	return resolve.Version{VersionKey: vk}, nil
}
func (c verifClient) Versions(_ context.Context, pk resolve.PackageKey) ([]resolve.Version, error) {
	var out []resolve.Version
	for _, v := range c.versions {
		out = append(out, resolve.Version{VersionKey: resolve.VersionKey{PackageKey: pk, VersionType: resolve.Concrete, Version: v}})
	}
	return out, nil
}
func (c verifClient) Requirements(context.Context, resolve.VersionKey) ([]resolve.RequirementVersion, error) {
	return nil, nil
}
func (c verifClient) MatchingVersions(context.Context, resolve.VersionKey) ([]resolve.Version, error) {
	return nil, resolve.ErrNotFound
}

func verifVer(label string, maxDigit int) string {
	s := ""
	for i := 0; i < 3; i++ {
		b := verifrt.Byte(label)
		verifrt.Assume(verifrt.And(b >= '0', b <= byte('0'+maxDigit)))
		if i > 0 {
			s += "."
		}
		s += string([]byte{b})
	}
	return s
}

// VerifSuggestMaven: the suggested version is never below the current one and the change is
// within the level; the universe lists the current version.
func VerifSuggestMaven() {
	n := verifrt.Param("versions")
	maxDigit := verifrt.Param("max_digit")
	var universe []string
	for i := 0; i < n; i++ {
		universe = append(universe, verifVer("version", maxDigit))
	}
	cur := universe[0]
	level := upgrade.Level(verifrt.Choice("level", 3)) // None is filtered out by the caller (Suggest)
	req := resolve.RequirementVersion{
		VersionKey: resolve.VersionKey{PackageKey: resolve.PackageKey{System: resolve.Maven, Name: "g:a"}, VersionType: resolve.Requirement, Version: cur},
		Type:       dep.NewType(),
	}
	got, err := suggestMavenVersion(context.Background(), verifClient{universe}, req, level)
	verifrt.Assert(err == nil, "a suggestion is computed for a simple version requirement")
	if err != nil {
		return
	}
	verifrt.Reach("suggested")
	c := semver.Maven.Compare(got.Version, cur)
	verifrt.Assert(c >= 0, "a bulk update never moves a requirement downward")
	if c > 0 {
		verifrt.Reach("upgraded")
		_, diff, derr := semver.Maven.Difference(cur, got.Version)
		verifrt.Assert(derr == nil && level.Allows(diff), "the update stays within the configured level")
		found := false
		for _, v := range universe {
			found = found || semver.Maven.Compare(v, got.Version) == 0
		}
		verifrt.Assert(found, "the suggested version exists in the universe")
	}
}
