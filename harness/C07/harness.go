package semantic

// Harness for C07 (injected by overlay; never written under /repo).

import (
	"github.com/google/osv-scalibr/internal/verifrt"
)

// inAlphabet constrains every byte of s to the alphabet (fork-free).
func verifInAlphabet(s string, alphabet string) bool {
	ok := true
	for i := 0; i < len(s); i++ {
		in := false
		for j := 0; j < len(alphabet); j++ {
			in = verifrt.Or(in, s[i] == alphabet[j])
		}
		ok = verifrt.And(ok, in)
	}
	return ok
}

func verifInput(name string, n int) string {
	s := verifrt.String(name, n)
	switch a := verifrt.ParamStr("alphabet"); a {
	case "":
	case "ascii":
		// printable ASCII
		for i := 0; i < len(s); i++ {
			verifrt.Assume(verifrt.And(s[i] >= 0x20, s[i] < 0x7f))
		}
	default:
		verifrt.Assume(verifInAlphabet(s, a))
	}
	return s
}

// VerifTotal1: parsing never panics; an accepted version compares equal to itself.
func VerifTotal1() {
	eco := verifrt.ParamStr("eco")
	s := verifInput("s", verifrt.Param("n"))
	v, err := Parse(s, eco)
	if err != nil {
		verifrt.Reach("rejected")
		return
	}
	verifrt.Reach("accepted")
	c, err := v.CompareStr(s)
	if err != nil {
		return
	}
	verifrt.ObserveInt("self", c)
	verifrt.Assert(c == 0, "reflexive: a version compares equal to itself")
}

// VerifAnti2: cmp(a,b) == -cmp(b,a), results in {-1,0,1}.
func VerifAnti2() {
	eco := verifrt.ParamStr("eco")
	a := verifInput("a", verifrt.Param("na"))
	b := verifInput("b", verifrt.Param("nb"))
	va, err := Parse(a, eco)
	if err != nil {
		return
	}
	vb, err := Parse(b, eco)
	if err != nil {
		return
	}
	ab, e1 := va.CompareStr(b)
	ba, e2 := vb.CompareStr(a)
	if e1 != nil || e2 != nil {
		return
	}
	verifrt.Reach("both-accepted")
	verifrt.ObserveInt("ab", ab)
	verifrt.ObserveInt("ba", ba)
	verifrt.Assert(verifrt.And(ab >= -1, ab <= 1), "result in {-1,0,1}")
	verifrt.Assert(ab == -ba, "antisymmetry: cmp(a,b) == -cmp(b,a)")
}

// verifFromShape renders a grammar-valid version from a shape: 'D' is a symbolic decimal digit,
// 'L' a symbolic letter a..c, every other character is literal.
func verifFromShape(label, shape string) string {
	s := ""
	for i := 0; i < len(shape); i++ {
		switch shape[i] {
		case 'D':
			b := verifrt.Byte(label)
			verifrt.Assume(verifrt.And(b >= '0', b <= '9'))
			s += string([]byte{b})
		case 'L':
			b := verifrt.Byte(label)
			verifrt.Assume(verifrt.And(b >= 'a', b <= 'c'))
			s += string([]byte{b})
		default:
			s += shape[i : i+1]
		}
	}
	return s
}

func verifSplit(s string, sep byte) []string {
	var out []string
	cur := ""
	for i := 0; i < len(s); i++ {
		if s[i] == sep {
			out = append(out, cur)
			cur = ""
		} else {
			cur += s[i : i+1]
		}
	}
	return append(out, cur)
}

// VerifLongNumbers: numeric components are compared as numbers of any length (the ecosystems'
// published orderings agree on that): two versions that differ only in the last digit of a
// 20-digit component just above 2^64 compare like those digits.
func VerifLongNumbers() {
	eco := verifrt.ParamStr("eco")
	tpl := verifrt.ParamStr("template") // N marks the long component
	mk := func(label string) (string, byte) {
		d := verifrt.Byte(label)
		verifrt.Assume(verifrt.And(d >= '0', d <= '9'))
		long := "1844674407370955161" + string([]byte{d}) // 18446744073709551610 .. 19
		out := ""
		for i := 0; i < len(tpl); i++ {
			if tpl[i] == 'N' {
				out += long
			} else {
				out += tpl[i : i+1]
			}
		}
		return out, d
	}
	a, da := mk("a")
	b, db := mk("b")
	va, err := Parse(a, eco)
	verifrt.Assert(err == nil, "a version of the ecosystem's grammar is accepted")
	if err != nil {
		return
	}
	c, err := va.CompareStr(b)
	verifrt.Assert(err == nil, "comparing two versions of the ecosystem's grammar succeeds")
	if err != nil {
		return
	}
	verifrt.Reach("compared")
	want := verifrt.IteInt(da < db, -1, verifrt.IteInt(da > db, 1, 0))
	verifrt.Assert(c == want, "numeric components of any length compare numerically")
}

// VerifTrans3: on versions that are valid in the ecosystem's grammar (built from the shapes given
// as parameter, with symbolic digits and letters) the comparison is a total preorder.
func VerifTrans3() {
	eco := verifrt.ParamStr("eco")
	shapes := verifSplit(verifrt.ParamStr("shapes"), '|')
	a := verifFromShape("a", shapes[verifrt.Choice("shape-a", len(shapes))])
	b := verifFromShape("b", shapes[verifrt.Choice("shape-b", len(shapes))])
	c := verifFromShape("c", shapes[verifrt.Choice("shape-c", len(shapes))])
	va, e1 := Parse(a, eco)
	vb, e2 := Parse(b, eco)
	_, e3 := Parse(c, eco)
	verifrt.Assert(e1 == nil && e2 == nil && e3 == nil, "a version of the ecosystem's grammar is accepted")
	if e1 != nil || e2 != nil || e3 != nil {
		return
	}
	ab, x1 := va.CompareStr(b)
	bc, x2 := vb.CompareStr(c)
	ac, x3 := va.CompareStr(c)
	verifrt.Assert(x1 == nil && x2 == nil && x3 == nil, "comparing two versions of the ecosystem's grammar succeeds")
	if x1 != nil || x2 != nil || x3 != nil {
		return
	}
	verifrt.Reach("compared")
	verifrt.ObserveInt("ab", ab)
	verifrt.ObserveInt("bc", bc)
	verifrt.ObserveInt("ac", ac)
	if ab <= 0 && bc <= 0 {
		verifrt.Assert(ac <= 0, "transitive: a <= b and b <= c imply a <= c")
	}
	if ab == 0 && bc == 0 {
		verifrt.Assert(ac == 0, "equality is transitive")
	}
	if ab < 0 && bc < 0 {
		verifrt.Reach("strict-chain")
	}
}

// VerifTwin is the vacuity twin of VerifTotal1: its final assertion must be violated.
func VerifTwin() {
	eco := verifrt.ParamStr("eco")
	s := verifInput("s", verifrt.Param("n"))
	v, err := Parse(s, eco)
	if err != nil {
		return
	}
	if _, err := v.CompareStr(s); err != nil {
		return
	}
	verifrt.Fail("twin")
}
