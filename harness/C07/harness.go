package semantic

// Harness for C07 (injected by overlay; never written under /repo).

import (
	"github.com/google/osv-scalibr/internal/verifrt"
)

// inAlphabet constrains every byte of s to the alphabet (fork-free).
func verifInAlphabet(s string, alphabet string) bool {
	ok := true
	for i := 0; i < len(s); i++ {
		in := false
		for j := 0; j < len(alphabet); j++ {
			in = verifrt.Or(in, s[i] == alphabet[j])
		}
		ok = verifrt.And(ok, in)
	}
	return ok
}

func verifInput(name string, n int) string {
	s := verifrt.String(name, n)
	switch a := verifrt.ParamStr("alphabet"); a {
	case "":
	case "ascii":
		// printable ASCII
		for i := 0; i < len(s); i++ {
			verifrt.Assume(verifrt.And(s[i] >= 0x20, s[i] < 0x7f))
		}
	default:
		verifrt.Assume(verifInAlphabet(s, a))
	}
	return s
}

// VerifTotal1: parsing never panics; an accepted version compares equal to itself.
func VerifTotal1() {
	eco := verifrt.ParamStr("eco")
	s := verifInput("s", verifrt.Param("n"))
	v, err := Parse(s, eco)
	if err != nil {
		verifrt.Reach("rejected")
		return
	}
	verifrt.Reach("accepted")
	c, err := v.CompareStr(s)
	if err != nil {
		return
	}
	verifrt.ObserveInt("self", c)
	verifrt.Assert(c == 0, "reflexive: a version compares equal to itself")
}

// VerifAnti2: cmp(a,b) == -cmp(b,a), results in {-1,0,1}.
func VerifAnti2() {
	eco := verifrt.ParamStr("eco")
	a := verifInput("a", verifrt.Param("na"))
	b := verifInput("b", verifrt.Param("nb"))
	va, err := Parse(a, eco)
	if err != nil {
		return
	}
	vb, err := Parse(b, eco)
	if err != nil {
		return
	}
	ab, e1 := va.CompareStr(b)
	ba, e2 := vb.CompareStr(a)
	if e1 != nil || e2 != nil {
		return
	}
	verifrt.Reach("both-accepted")
	verifrt.ObserveInt("ab", ab)
	verifrt.ObserveInt("ba", ba)
	verifrt.Assert(verifrt.And(ab >= -1, ab <= 1), "result in {-1,0,1}")
	verifrt.Assert(ab == -ba, "antisymmetry: cmp(a,b) == -cmp(b,a)")
}

// VerifTwin is the vacuity twin of VerifTotal1: its final assertion must be violated.
func VerifTwin() {
	eco := verifrt.ParamStr("eco")
	s := verifInput("s", verifrt.Param("n"))
	v, err := Parse(s, eco)
	if err != nil {
		return
	}
	if _, err := v.CompareStr(s); err != nil {
		return
	}
	verifrt.Fail("twin")
}
