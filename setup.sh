#!/bin/sh
# Builds the engine from files on disk only (offline) and runs the machinery's self-tests.
set -e
cd "$(dirname "$0")"
GO=/root/go/pkg/mod/golang.org/toolchain@v0.0.1-go1.24.0.linux-amd64/bin/go
export GOFLAGS=-mod=mod GOPROXY=off GOTOOLCHAIN=local
mkdir -p bin
(cd engine && "$GO" build -o ../bin/verif ./cmd/verif)
echo "built /verif/bin/verif"
if [ "${VERIF_SKIP_SELFTEST:-}" = "" ]; then ./selftest.sh; fi
